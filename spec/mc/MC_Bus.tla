--------------------------- MODULE MC_Bus ---------------------------
(* C10: the bus address map.  A map-based reference (MapWrite / MapRead: "which
   cell does an address name") is compared with the decoder-shaped BusWrite /
   BusRead of Bus.tla, exhaustively:
     phase "single": every (pre-state, address) -- the invariant quantifies over all
                     256 bytes: 3 x 256 x 256 single operations;
     phase "pair":   every ordered pair of write addresses with distinct bytes.
   Every enumerated case is also printed with the complete expected post-state
   signature so that the harness can force it onto the real Bus (S->I).      *)
EXTENDS Machine, TLC, Json

VARIABLES phase, p, a1, a2
vars == <<phase, p, a1, a2>>

\* ---- the five pre-states, built by public calls (the harness runs the same ops) ----
PreOps(k) ==
  CASE k = 1 -> <<>>
    [] k = 2 -> << [op |-> "bus_write", a |-> 0, v |-> 17], [op |-> "bus_write", a |-> 239, v |-> 99],
                   [op |-> "bus_write", a |-> 128, v |-> 255],
                   [op |-> "set_input", k |-> 0, v |-> 1], [op |-> "set_input", k |-> 1, v |-> 2],
                   [op |-> "set_input", k |-> 2, v |-> 3], [op |-> "set_input", k |-> 3, v |-> 4],
                   [op |-> "bus_write", a |-> 254, v |-> 9], [op |-> "bus_write", a |-> 255, v |-> 8],
                   [op |-> "bus_write", a |-> 249, v |-> 63], [op |-> "key_int"],
                   [op |-> "bus_write", a |-> 250, v |-> 77], [op |-> "bus_write", a |-> 251, v |-> 248],
                   [op |-> "bus_write", a |-> 252, v |-> 200], [op |-> "bus_write", a |-> 253, v |-> 147],
                   [op |-> "set_di1", v |-> 171], [op |-> "set_ai1", x |-> 1500], [op |-> "set_temp", x |-> 700],
                   [op |-> "bus_write", a |-> 240, v |-> 120], [op |-> "bus_write", a |-> 241, v |-> 90],
                   [op |-> "set_j1", v |-> TRUE], [op |-> "set_uio", k |-> 2, v |-> TRUE] >>
    [] k = 3 -> << [op |-> "bus_write", a |-> 242, v |-> 128 + 5],     \* UIO1, UIO3 outputs
                   [op |-> "bus_write", a |-> 242, v |-> 192 + 32 + 4],  \* int ctrl: IE, source comp1, rising
                   [op |-> "set_ai1", x |-> 2000], [op |-> "set_ai2", x |-> 5000],
                   [op |-> "bus_write", a |-> 240, v |-> 250], [op |-> "bus_write", a |-> 240, v |-> 10],
                   [op |-> "bus_write", a |-> 100, v |-> 100], [op |-> "bus_write", a |-> 101, v |-> 101],
                   [op |-> "set_input", k |-> 3, v |-> 255], [op |-> "bus_write", a |-> 253, v |-> 66],
                   [op |-> "bus_write", a |-> 252, v |-> 7] >>
    [] k = 4 -> << [op |-> "bus_write", a |-> 242, v |-> 198],          \* int ctrl: source J1, rising, IE CLEAR
                   [op |-> "set_j1", v |-> TRUE],                          \* -> SOURCE and flip-flop set in the board's status
                   [op |-> "bus_write", a |-> 249, v |-> 1], [op |-> "key_int"],
                   [op |-> "bus_write", a |-> 50, v |-> 50] >>
    [] k = 5 -> << [op |-> "set_ai2", x |-> 1000], [op |-> "set_ai1", x |-> 300],   \* a master reset clears the ports but does not
                   [op |-> "bus_write", a |-> 241, v |-> 200],                        \* re-evaluate the comparators: the next write of
                   [op |-> "bus_write", a |-> 240, v |-> 90],                         \* the SAME byte (0) must still reach the board
                   [op |-> "master_reset"], [op |-> "bus_write", a |-> 7, v |-> 7] >>
Pre(k) == ApplyOps(MachineInit, PreOps(k))

\* ---- the map-based reference -----------------------------------------------------
\* cells: RAM, four inputs, two outputs, interrupt mask / status, board ports
MapOf(b) == [mem |-> b.ram, inp |-> b.inr, out |-> b.outr, mask |-> b.micr, status |-> b.misr,
             do1 |-> b.bd.do1, do2 |-> b.bd.do2, di1 |-> b.bd.di1]
MapWrite(mp, a, v) ==
  [mp EXCEPT !.mem = IF a <= 239 THEN [@ EXCEPT ![a] = v] ELSE @,
             !.out = IF a = 254 THEN [@ EXCEPT ![0] = v] ELSE IF a = 255 THEN [@ EXCEPT ![1] = v] ELSE @,
             !.mask = IF a = 249 THEN v % 64 ELSE @,
             !.do1 = IF a = 240 THEN v ELSE @,
             !.do2 = IF a = 241 THEN v ELSE @]
Documented == (0..239) \cup {240, 241, 243, 249} \cup (252..255)
MapRead(mp, b, a) ==
  CASE a <= 239 -> mp.mem[a]
    [] a >= 252 -> mp.inp[a - 252]
    [] a = 249 -> mp.status
    [] a = 240 -> mp.di1
    [] a = 241 -> b.bd.dasr       \* board status registers: contents are C14's business,
    [] a = 243 -> b.bd.daisr      \* here only "the read returns that register"

SingleOK(b, a) ==
  \A v \in 0..255 :
    LET b2 == BusWrite(b, a, v) IN
    /\ MapOf(b2) = MapWrite(MapOf(b), a, v)                       \* the write reaches exactly its cell
    /\ a >= 240 => b2.ram = b.ram                                 \* I/O writes never touch RAM
    /\ a <= 239 => [b2 EXCEPT !.ram = b.ram] = b                  \* RAM writes touch nothing else
    /\ b2.inr = b.inr                                             \* inputs are unaffected by writes
    /\ (a \notin {254, 255}) => b2.outr = b.outr
    /\ \A r \in Documented : BusRead(b2, r) = MapRead(MapOf(b2), b2, r)
    /\ a <= 239 => BusRead(b2, a) = v                             \* read your write
    /\ a \in 252..255 => BusRead(b2, a) = b.inr[a - 252]

V1 == 90
V2 == 165
PairOK(b, x, y) ==
  LET b1 == BusWrite(b, x, V1)
      b2 == BusWrite(b1, y, V2) IN
  /\ x <= 239 /\ x # y => BusRead(b2, x) = V1        \* no aliasing: the first byte survives
  /\ y <= 239 => BusRead(b2, y) = V2
  /\ \A i \in 0..239 : i # x /\ i # y => b2.ram[i] = b.ram[i]
  /\ b2.inr = b.inr

\* ---- signature of the cells C10 talks about (fixed order; same list in the harness) ----
\* RAM (checksum), inputs, outputs, mask, status, board ports, and the value read back at
\* address a where the property documents the read.  For the board status registers F1/F3
\* only "the read returns the register" is C10's business (their contents are C14's):
\* the harness reports 1 iff read(a) equals the board's own getter.  The last two fields are the board's status registers after
\* the write ("writes to F0/F1 reach the board": the port value AND the comparator re-evaluation the board performs on every port write).
ReadBack(b, a) == IF a \in {241, 243} THEN 1
                  ELSE IF a \in Documented THEN BusRead(b, a) ELSE -1
Sig(b, a) ==
  << RamSum(b.ram), b.inr[0], b.inr[1], b.inr[2], b.inr[3], b.outr[0], b.outr[1], b.micr, b.misr,
     b.bd.di1, b.bd.do1, b.bd.do2, ReadBack(b, a), b.bd.dasr, b.bd.daisr >>

Init == phase = "single" /\ p \in 1..5 /\ a1 = 0 /\ a2 = 0
Next == \/ /\ phase = "single" /\ a1 < 255 /\ a1' = a1 + 1 /\ UNCHANGED <<phase, p, a2>>
        \/ /\ phase = "single" /\ a1 = 255 /\ p = 2 /\ phase' = "pair" /\ a1' = 0 /\ a2' = 0 /\ p' = p
        \/ /\ phase = "pair" /\ a2 < 255 /\ a2' = a2 + 1 /\ UNCHANGED <<phase, p, a1>>
        \/ /\ phase = "pair" /\ a2 = 0 /\ a1 < 255 /\ a1' = a1 + 1 /\ UNCHANGED <<phase, p, a2>>

MapInv == IF phase = "single" THEN SingleOK(Pre(p), a1) ELSE PairOK(Pre(p), a1, a2)

Emit ==
  IF phase = "single"
  THEN PrintT(<<"REPLAY", ToJson([kind |-> "single", p |-> p, a |-> a1,
                  rows |-> [v \in 1..256 |-> Sig(BusWrite(Pre(p), a1, v - 1), a1)]])>>)
  ELSE PrintT(<<"REPLAY", ToJson([kind |-> "pair", p |-> p, a |-> a1, b |-> a2,
                  row |-> Sig(BusWrite(BusWrite(Pre(p), a1, V1), a2, V2), a1)])>>)

ASSUME PrintT(<<"REPLAY", ToJson([kind |-> "pre", ops |-> [k \in 1..5 |-> PreOps(k)]])>>)
=====================================================================
