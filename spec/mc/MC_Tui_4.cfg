CONSTANT K = 4
INIT Init
NEXT Next
INVARIANT EditorInv
INVARIANT Emit
CHECK_DEADLOCK FALSE
