------------------------- MODULE MC_CtlTables -------------------------
(* Reference tables of Signals.tla for the exhaustive binding of the real
   decode and next-address functions (DESIGN 2.3):
     kind "decode":   one row per control-store address: packed decode for all 256 IR values
     kind "nextaddr": one row per (class, IR): packed next address + 512 * "edge interrupt
                      cleared" for all 512 combinations of
                      (f = C,Z,N,IE ; ALU carry, zero, negative ; edge flip-flop ; level line)
   class = MAC2..0 . NA4..0 of the word (the only word bits the next address reads);
   only classes that occur in the control store of the working tree are tabulated.   *)
EXTENDS Micro, TLC, Json, FiniteSets, Sequences

VARIABLES kind, i, j
Classes == {(Rom[a] \div 2^19) % 256 : a \in 1..512}
ClassSeq == LET RECURSIVE Sort(_) Sort(S) == IF S = {} THEN <<>> ELSE LET x == CHOOSE y \in S : \A z \in S : y <= z IN <<x>> \o Sort(S \ {x})
            IN Sort(Classes)
NC == Len(ClassSeq)

Pack(w, ir) == SelA(w, ir) + 8 * SelB(w, ir) + 64 * SelW(w, ir) + 512 * ConstB(w) + 2^17 * ALUS(w)
               + 2^21 * B2N(BUSEN(w)) + 2^22 * B2N(BUSWR(w)) + 2^23 * B2N(MRGWE(w)) + 2^24 * B2N(MCHFLG(w))
               + 2^25 * B2N(MALUIA(w)) + 2^26 * B2N(MALUIB(w)) + 2^27 * B2N(MAC0(w)) + 2^28 * B2N(MAC1(w))
               + 2^29 * B2N(MAC2(w)) + 2^30 * B2N(MAC3(w))
DecodeRow(a) == [ir \in 1..256 |-> Pack(Word(a), ir - 1)]

\* instruction-register update and halt detection of one clock edge, as a function of
\* (current word, byte on the bus during the last edge); IR before the edge = 85
IrStepRow(a) ==
  [b \in 1..256 |->
     LET m0 == [MachineInit EXCEPT !.maddr = a, !.ir = 85, !.lbr = b - 1]
         m1 == EdgeF(m0)
     IN m1.ir + 256 * (CASE m1.st = "Running" -> 0 [] m1.st = "Stopped" -> 1 [] m1.st = "ErrorStopped" -> 2)]

NextRow(c, ir) ==
  LET w == c * 2^19 IN
  [r \in 1..512 |->
     LET x == r - 1
         f == (x \div 32) % 16
         ac == (x \div 16) % 2 = 1   az == (x \div 8) % 2 = 1   an == (x \div 4) % 2 = 1
         pei == (x \div 2) % 2 = 1   pli == x % 2 = 1
     IN NextAddr(w, ir, f, ac, az, an, pei, pli) + 512 * B2N(IntLogic1(w, pei))]

Init == kind = "decode" /\ i \in 0..15 /\ j = 0
Next == \/ kind = "decode" /\ j < 31 /\ j' = j + 1 /\ UNCHANGED <<kind, i>>
        \/ kind = "decode" /\ j = 31 /\ kind' = "nextaddr" /\ j' = 0 /\ i' = i
        \/ kind = "nextaddr" /\ j < 255 /\ j' = j + 1 /\ UNCHANGED <<kind, i>>
\* decode: address = 32 * i + j.   nextaddr: worker i handles the classes k with k % 16 = i.
Emit ==
  IF kind = "decode"
  THEN /\ PrintT(<<"REPLAY", ToJson([kind |-> "decode", a |-> 32 * i + j, row |-> DecodeRow(32 * i + j)])>>)
       /\ PrintT(<<"REPLAY", ToJson([kind |-> "irstep", a |-> 32 * i + j, row |-> IrStepRow(32 * i + j)])>>)
  ELSE \A k \in 1..NC : (k % 16 = i) =>
         PrintT(<<"REPLAY", ToJson([kind |-> "nextaddr", class |-> ClassSeq[k], ir |-> j, row |-> NextRow(ClassSeq[k], j)])>>)
=====================================================================
