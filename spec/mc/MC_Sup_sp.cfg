CONSTANT Suite = "sp"
INIT Init
NEXT Next
INVARIANT SupInv
INVARIANT StepProps
INVARIANT Absorbing
INVARIANT StaysHalted
INVARIANT AbstractsToCore
INVARIANT Emit
CHECK_DEADLOCK FALSE
