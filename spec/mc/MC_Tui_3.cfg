CONSTANT K = 3
INIT Init
NEXT Next
INVARIANT EditorInv
INVARIANT Emit
CHECK_DEADLOCK FALSE
