CONSTANT Depth = 4
CONSTANT LockEdges = 120
INIT Init
NEXT Next
INVARIANT ResetProps
INVARIANT LockInv
CHECK_DEADLOCK FALSE
