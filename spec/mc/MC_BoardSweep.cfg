INIT Init
NEXT Next
INVARIANT Law
INVARIANT Emit
CHECK_DEADLOCK FALSE
