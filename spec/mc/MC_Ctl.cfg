INIT Init
NEXT Next
INVARIANT Programmed
INVARIANT InRoutine
INVARIANT Completes
INVARIANT UndefinedNeverCompletes
INVARIANT LoopsStayInside
CHECK_DEADLOCK FALSE
