CONSTANT Suite = "shapes1"
INIT Init
NEXT Next
INVARIANT Debug
INVARIANT Emit
CHECK_DEADLOCK FALSE
