CONSTANT Suite = "shapes2"
INIT Init
NEXT Next
INVARIANT Debug
INVARIANT Emit
CHECK_DEADLOCK FALSE
