CONSTANT Suite = "shapes2"
INIT Init
NEXT Next
INVARIANT Debug
CHECK_DEADLOCK FALSE
