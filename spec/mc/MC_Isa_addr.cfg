CONSTANT Suite = "addr"
INIT Init
NEXT Next
INVARIANT Debug
CHECK_DEADLOCK FALSE
