------------------------- MODULE MC_BoardSweep -------------------------
(* C14: the comparator / DAC / fan laws for EVERY DAC byte, with the analog input
   (and for comparator 2 also the temperature sensor) one millivolt below, exactly
   at, and one millivolt above the DAC voltage, in both orders (port write first /
   input first).  Expected board state printed for the harness (S->I).           *)
EXTENDS Machine, TLC, Json
VARIABLES byte, which
Init == byte \in 0..255 /\ which \in 1..3
Next == UNCHANGED <<byte, which>>
Port == IF which = 1 THEN 240 ELSE 241
SetOp(x) == CASE which = 1 -> [op |-> "set_ai1", x |-> x] [] which = 2 -> [op |-> "set_ai2", x |-> x] [] which = 3 -> [op |-> "set_temp", x |-> x]
Offsets == {-1, 0, 1}
Cases == { <<d, first>> : d \in Offsets, first \in BOOLEAN }
Ops(d, first) == LET w == [op |-> "bus_write", a |-> Port, v |-> byte]  s == SetOp(10 * byte + d) IN IF first THEN <<w, s>> ELSE <<s, w>>
Final(d, first) == ApplyOps(MachineInit, Ops(d, first))
\* the law itself, on the final state
Law == \A c \in Cases :
         LET f == Final(c[1], c[2])  x == Clamp(10 * byte + c[1]) IN
         /\ (which = 1) => Bit(f.bd.dasr, 3) = (x > 10 * byte) /\ f.bd.ao1 = 10 * byte
         /\ (which # 1) => Bit(f.bd.dasr, 4) = (x > 10 * byte) /\ f.bd.ao2 = 10 * byte
         /\ (which = 1) => BusRead(f, 242) \in {255 - byte, 256 - byte}
Emit == \A c \in Cases : PrintT(<<"REPLAY", ToJson([h |-> Ops(c[1], c[2]), s |-> [bd |-> Final(c[1], c[2]).bd]])>>)
=====================================================================
