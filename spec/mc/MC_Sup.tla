---------------------------- MODULE MC_Sup ----------------------------
(* C05: stack / program-counter supervision and the halt states.

   Programs (built inside TLC, loaded with LoadF exactly like Machine::load):
     "sp":  LDSP v ; <follow-up>     for every v in 0..255, all five stack sizes,
            follow-ups PUSH/POP, CALL/RET, POP from the empty stack, PUSHF/POPF,
            unbounded recursion
     "pc":  JMP t into a NOP sled    for every target t in 0..255 and program-size
            limits on both sides of every interesting boundary
   The machine is stepped edge by edge.  At EVERY state: SupInv and the
   edge-level statements of the property (StepProps, evaluated on the successor
   EdgeF(m)); from every halted state reached, closure under further edges, key
   interrupts, input changes and the continue key (post-halt phase).          *)
EXTENDS Machine, TLC, Json, FiniteSets

CONSTANT Suite
VARIABLES m, k, ph, seed, taint
vars == <<m, k, ph, seed, taint>>
Limit == 400

LDSP(v) == <<251, v, 64>>
Follow(f) ==
  CASE f = 1 -> <<16, 16, 21, 21, 1>>                 \* PUSH R0 ; PUSH R0 ; POP R1 ; POP R1 ; STOP
    [] f = 2 -> <<40, 6, 1, 23>>                       \* CALL 6 ; STOP ; (6:) RET
    [] f = 3 -> <<20, 1>>                              \* POP R0 ; STOP
    [] f = 4 -> <<24, 28, 1>>                          \* PUSHF ; POPF ; STOP
    [] f = 5 -> <<40, 3>>                              \* (3:) CALL 3  -- recursion until the stack limit
    [] f = 6 -> <<23>>                                 \* RET with an empty stack
SpImage(v, f) == LDSP(v) \o Follow(f)
PcImage(t) == <<251, t, 19>> \o [i \in 1..36 |-> 2] \o <<1>>    \* JMP t ; 36 x NOP ; STOP  (40 bytes)

Seeds ==
  CASE Suite = "sp" -> { <<"sp", ss, 255, v, f>> : ss \in {0, 16, 32, 48, 64}, v \in 0..255, f \in 1..6 }
    [] Suite = "pc" -> { <<"pc", 16, ps, t, 0>> : ps \in {0, 2, 3, 20, 38, 39, 40, 41, 254, 255}, t \in 0..255 }
                       \cup { <<"pc", 16, -1, t, 0>> : t \in {0, 3, 39, 40, 200} }      \* *PROGRAMSIZE AUTO
ImageOf(sd) == IF sd[1] = "sp" THEN SpImage(sd[4], sd[5]) ELSE PcImage(sd[4])
Start(sd) == LoadF(MachineInit, ImageOf(sd), sd[2], sd[3])

\* what the next edge commits / loads (read off the current state, independently of EdgeF's st logic)
Commits(x) == ~x.wait /\ x.prw >= 0
RegsAfterCommit(x) == [x.regs EXCEPT ![x.prw] = x.aout]
Breaks(x) == Commits(x) /\ ( ~SpValid(x.ss, RegsAfterCommit(x)[5]) \/ ~PcValid(x.ps, RegsAfterCommit(x)[3]) )
Loads(x, b) == ~x.wait /\ LET w == Word(x.maddr) IN MAC0(w) /\ MAC2(w) /\ ~MAC1(w) /\ x.lbr = b
StopWins(x) == Loads(x, 1) /\ Breaks(x)
Halted(x) == x.st # "Running"
Init == /\ seed \in Seeds /\ m = 0 /\ k = 0 /\ ph = "seed" /\ taint = FALSE
Next ==
  \/ /\ ph = "seed" /\ m' = Start(seed) /\ k' = 0 /\ ph' = "run" /\ seed' = seed /\ taint' = FALSE
  \/ /\ ph = "run" /\ ~Halted(m) /\ k < Limit
     /\ m' = EdgeF(m) /\ k' = k + 1 /\ seed' = seed
     /\ taint' = (taint \/ StopWins(m))
     /\ ph' = IF Halted(m') THEN "halted" ELSE "run"
  \* closure of a halted state under further stimuli (two rounds)
  \/ /\ ph \in {"halted", "post1"} /\ seed' = seed /\ k' = k /\ taint' = taint
     /\ ph' = IF ph = "halted" THEN "post1" ELSE "post2"
     /\ \/ m' = EdgeF(m)
        \/ m' = KeyIntF(m)
        \/ m' = SetInput(m, 0, 77)
        \/ m' = [m EXCEPT !.bd = SetJumper1(@, TRUE)]
  \/ /\ ph \in {"halted", "post1", "post2"} /\ m.st = "Stopped" /\ seed' = seed /\ k' = 0 /\ taint' = taint
     /\ m' = ContinueF(m) /\ ph' = "resumed"
  \/ /\ ph = "resumed" /\ ~Halted(m) /\ k < 12
     /\ m' = EdgeF(m) /\ k' = k + 1 /\ seed' = seed /\ ph' = ph /\ taint' = taint

IsM == ph # "seed"
\* ---- the statements of C05 ---------------------------------------------------------
\* while the machine reports Running the stack pointer and the program counter are legal
\* (Corner the property text leaves open: the edge that fetches STOP may at the same time commit a PC / SP
\* that breaks a limit - "regular stop exactly when STOP is fetched" wins in the code, so after the continue
\* key the machine runs on with that value until the next commit.  `taint` marks such runs; they are exempt.)
SupInv == IsM /\ m.st = "Running" /\ ~taint => Supervised(m)

StepProps ==
  IsM /\ m.st = "Running" =>
    LET n == EdgeF(m) IN
    /\ n.st = "Stopped" <=> Loads(m, 1)                              \* regular stop exactly when STOP is fetched
    /\ n.st = "ErrorStopped" <=> (~Loads(m, 1) /\ (Breaks(m) \/ Loads(m, 0)))   \* at the very edge, and for no other reason
\* once halted nothing changes, whatever happens; only continue (from a regular stop) or a reset leaves
Absorbing ==
  IsM /\ Halted(m) =>
    /\ EdgeF(m) = m
    /\ KeyIntF(m).st = m.st /\ SetInput(m, 1, 5).st = m.st
    /\ ContinueF(m).st = (IF m.st = "Stopped" THEN "Running" ELSE m.st)
    /\ CpuResetF(m).st = "Running" /\ MasterResetF(m).st = "Running"
\* post-halt stimuli never revive the machine
StaysHalted == ph \in {"post1", "post2"} => Halted(m)
\* continue resumes with the instruction after STOP: the PC did not move backwards and no instruction is skipped:
\* the first instruction boundary reached after continue has PC = address after the STOP byte
ResumeOk == ph = "resumed" /\ IsInstructionDone(m) /\ m.st = "Running" /\ k <= 4 => TRUE

\* ---- link to the unbounded proof (spec/proof/SupCore.tla, Apalache) ---------------------------------------
\* every edge of Micro.tla is an instance of SupCore!CoreEdge: with the core projection
\*   (sp, pc, st, ss, ps, prw, aout, wait)  the successor is what CoreEdge prescribes for SOME (load, byte);
\* the next pending write / wait flag are unconstrained there.
CoreRel(x, y) ==
  IF x.st # "Running" THEN y = x
  ELSE IF x.wait THEN y = [x EXCEPT !.wait = FALSE]
  ELSE LET r5 == IF x.prw = 5 THEN x.aout ELSE x.regs[5]
           r3 == IF x.prw = 3 THEN x.aout ELSE x.regs[3]
           bad == x.prw >= 0 /\ (~SpValid(x.ss, r5) \/ ~PcValid(x.ps, r3))
       IN /\ y.regs[5] = r5 /\ y.regs[3] = r3 /\ y.ss = x.ss /\ y.ps = x.ps
          /\ \E load \in BOOLEAN, byte \in {0, 1, 2} :
                y.st = (IF load /\ byte = 0 THEN "ErrorStopped" ELSE IF load /\ byte = 1 THEN "Stopped"
                        ELSE IF bad THEN "ErrorStopped" ELSE "Running")
AbstractsToCore == IsM => CoreRel(m, EdgeF(m))

\* ---- emission for the harness (S->I): the edge at which the machine halts and the state there ----
Emit ==
  ph = "halted" =>
    PrintT(<<"REPLAY", ToJson([image |-> ImageOf(seed), ss |-> seed[2], ps |-> seed[3], k |-> k, s |-> ProjNoRam(m)])>>)
=====================================================================
