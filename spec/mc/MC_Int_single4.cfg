CONSTANT MaxPress = 1
CONSTANT Window = 0
CONSTANT Which = 4
INIT Init
NEXT Next
INVARIANT NoError
INVARIANT Ends
INVARIANT NoSpurious
INVARIANT AtEnd
INVARIANT Transparent
INVARIANT Emit
PROPERTY EntryStep
CHECK_DEADLOCK FALSE
