INIT Init
NEXT Next
INVARIANT Facts
CHECK_DEADLOCK FALSE
