INIT Init
NEXT Next
INVARIANT Consistent
CHECK_DEADLOCK FALSE
