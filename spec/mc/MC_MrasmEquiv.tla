------------------------- MODULE MC_MrasmEquiv -------------------------
(* The scanning operators of Mrasm.tla were rewritten without recursion (TLC evaluates a RECURSIVE operator in
   time quadratic in its depth).  This module keeps the original, obviously right recursive definitions and lets
   TLC compare them with the new ones on every sequence up to length MaxLen over an alphabet that contains every
   character class the operators distinguish (blank, tab, ';', LF, CR, a digit, '0', a letter).                  *)
EXTENDS Mrasm

CONSTANT MaxLen
Alphabet == {32, 9, 59, 10, 13, 49, 48, 120}
Seqs == UNION { [1..n -> Alphabet] : n \in 0..MaxLen }

RECURSIVE RunEndRec(_, _, _)
RunEndRec(s, i, S) == IF At(s, i) \in S THEN RunEndRec(s, i + 1, S) ELSE i
RECURSIVE TrimLRec(_)
TrimLRec(w) == IF w # <<>> /\ Head(w) \in TrimSet THEN TrimLRec(Tail(w)) ELSE w
RECURSIVE TrimRRec(_)
TrimRRec(w) == IF w # <<>> /\ w[Len(w)] \in TrimSet THEN TrimRRec(Sub(w, 1, Len(w))) ELSE w
TrimRec(w) == TrimRRec(TrimLRec(w))
RECURSIVE SplitRec(_, _, _)
SplitRec(t, cur, acc) ==
  IF t = <<>> THEN Append(acc, cur)
  ELSE IF Head(t) = 10 THEN SplitRec(Tail(t), <<>>, Append(acc, cur))
  ELSE IF Head(t) = 13 /\ Len(t) >= 2 /\ t[2] = 10 THEN SplitRec(Tail(Tail(t)), <<>>, Append(acc, cur))
  ELSE SplitRec(Tail(t), Append(cur, Head(t)), acc)
RECURSIVE ValRecOld(_, _, _)
ValRecOld(d, base, acc) == IF d = <<>> THEN acc
                           ELSE LET a == acc * base + DigVal(Head(d)) IN ValRecOld(Tail(d), base, IF a > Big THEN Big ELSE a)

VARIABLE s
Init == s \in Seqs
Next == UNCHANGED s

Same ==
  /\ \A i \in 1..(Len(s) + 2) : \A S \in {Blank, WordCh, Alpha, TrimSet, {48}} : RunEnd(s, i, S) = RunEndRec(s, i, S)
  /\ Trim(s) = TrimRec(s)
  /\ \A a \in 1..(Len(s) + 1) : TrimAt(s, a) = TrimRec(Sub(s, a, Len(s) + 1))
  /\ (~HasLoneCR(s)) => SplitLines(s) = SplitRec(s, <<>>, <<>>)
  /\ (\A k \in 1..Len(s) : s[k] \in {48, 49}) => \A base \in {2, 10, 16} : ValOf(s, base, 0) = ValRecOld(s, base, 0)
  \* long digit strings (saturation at Big, skipped leading zeros): k zeros followed by m ones, checked once
  /\ s = <<>> => \A k \in 0..28 : \A m \in 0..28 :
        LET d == [j \in 1..(k + m) |-> IF j <= k THEN 48 ELSE 49] IN
        \A base \in {2, 10, 16} : ValOf(d, base, 0) = ValRecOld(d, base, 0)
=========================================================================
