---------------------------- MODULE MC_Tui ----------------------------
(* C17: all key sequences up to length K over an alphabet with the letters that
   trigger completion, blanks, digits, "=", 2-, 3- and 4-byte characters and all
   editing keys are explored on Tui.tla; EditorOk at every state; every behaviour
   is printed with the expected editor state so that the harness can type it
   into the real session (S->I).                                                *)
EXTENDS Tui, Json

CONSTANT K
VARIABLES s, keys
vars == <<s, keys>>

Ch(c) == [k |-> "char", c |-> c]
Alphabet == << Ch(108), Ch(115), Ch(70), Ch(67), Ch(32), Ch(61), Ch(49), Ch(228), Ch(8364), Ch(128512),
               [k |-> "enter"], [k |-> "tab"], [k |-> "backtab"], [k |-> "left"], [k |-> "right"], [k |-> "home"], [k |-> "end"],
               [k |-> "backspace"], [k |-> "delete"], [k |-> "up"], [k |-> "down"] >>
Init == s = SessionInit /\ keys = <<>>
Next == /\ Len(keys) < K
        /\ \E i \in 1..Len(Alphabet) :
             \E y \in Key(s, Alphabet[i]) :
               /\ "special" \notin DOMAIN y
               /\ s' = y /\ keys' = Append(keys, Alphabet[i])
EditorInv == EditorOk(s)
KeyJson(k) == IF k.k = "char" THEN [k |-> "char", c |-> k.c] ELSE [k |-> k.k, c |-> 0]
Emit == PrintT(<<"REPLAY", ToJson([keys |-> [i \in 1..Len(keys) |-> KeyJson(keys[i])],
                                   ed |-> [text |-> s.text, cursor |-> s.cursor, hist |-> s.hist, hidx |-> s.hidx, comps |-> s.comps, cidx |-> s.cidx],
                                   notif |-> s.notif, st |-> s.m.st, maddr |-> s.m.maddr])>>)
=====================================================================
