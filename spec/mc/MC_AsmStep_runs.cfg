CONSTANT Suite = "runs"
INIT Init
NEXT Next
INVARIANT WalkInv
INVARIANT Terminates
CHECK_DEADLOCK FALSE
