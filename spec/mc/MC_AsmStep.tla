-------------------------- MODULE MC_AsmStep --------------------------
(* C11: one key in assembly-step mode = single clock edges up to the next
   instruction boundary - never more, never less - and the step always returns.

   The body of Machine::trigger_key_clock is modelled as the code has it
   (implementation shaped): loop 1 "leave": while done /\ Running: edge;
   loop 2 "finish": while ~done /\ Running: edge, leaving when an edge changed
   nothing.  It is walked with ordinary steps next to the DECLARATIVE definition
   (complete = halted, or at a boundary after having left the starting one, or
   stuck), from
     "runs":  every state of the edge-by-edge runs of the program suite, with a
              key interrupt injected at any point (so: any phase of any
              instruction, wait pending, interrupt pending, halted), and
     "bytes": a boundary with every byte 0..255 at the PC, and for the two-byte
              class every second byte.
   WalkInv: the loop exits exactly where the declarative definition says.
   Terminates: it exits within a bound.                                          *)
EXTENDS Gen, TLC

CONSTANT Suite
VARIABLES m, ph, loop, decl, issued, left, ints
vars == <<m, ph, loop, decl, issued, left, ints>>

Done(x) == IsInstructionDone(x)
Running(x) == x.st = "Running"

Progs == <<[image |-> ProgP1, ss |-> 32, ps |-> 255], [image |-> ProgInt, ss |-> 16, ps |-> 255]>>
RunLimit == IF Suite = "runs" THEN 420 ELSE 0

Seeds == IF Suite = "runs" THEN { <<"prog", i>> : i \in 1..2 }
         ELSE { <<"byte", b, 0>> : b \in 0..239 } \cup { <<"byte", b, b2>> : b \in 240..255, b2 \in 0..255 }
Start(sd) ==
  IF sd[1] = "prog" THEN LET p == Progs[sd[2]] IN SetInput(LoadF(MachineInit, p.image, p.ss, p.ps), 0, 3)
  ELSE Mk(16, IF sd[2] >= 240 /\ (sd[2] \div 4) % 4 >= 2 /\ sd[2] % 4 = 3 THEN <<sd[2], 77, sd[3], 130>> ELSE <<sd[2], sd[3], 130, 5>>,
          7, 200, 33, 8, 232, FALSE, 16, 255, NoCells)

\* declarative completion of a step that started with `lf` = "the start was not at a boundary"
Complete(x, lf) == ~Running(x) \/ (lf /\ Done(x)) \/ EdgeF(x) = x

Init == m \in Seeds /\ ph = "seed" /\ loop = "none" /\ decl = FALSE /\ issued = 0 /\ left = FALSE /\ ints = 0
Next ==
  \/ /\ ph = "seed" /\ m' = Start(m) /\ ph' = "run" /\ UNCHANGED <<loop, decl, issued, left, ints>>
  \* the program runs edge by edge; a key interrupt may arrive at any point (at most twice)
  \/ /\ ph = "run" /\ issued < RunLimit /\ m' = EdgeF(m) /\ issued' = issued + 1 /\ UNCHANGED <<ph, loop, decl, left, ints>>
  \/ /\ ph = "run" /\ ints < 1 /\ issued < RunLimit /\ m' = KeyIntF(m) /\ ints' = ints + 1 /\ UNCHANGED <<ph, loop, decl, issued, left>>
  \* an assembly step is requested here
  \/ /\ ph = "run"
     /\ ph' = "walk" /\ issued' = 0 /\ left' = ~Done(m) /\ decl' = Complete(m, ~Done(m))
     /\ loop' = IF Done(m) /\ Running(m) THEN "leave" ELSE IF ~Done(m) /\ Running(m) THEN "finish" ELSE "exit"
     /\ UNCHANGED <<m, ints>>
  \* one iteration of the code's loops
  \/ /\ ph = "walk" /\ loop \in {"leave", "finish"} /\ issued < 2000
     /\ m' = EdgeF(m) /\ issued' = issued + 1
     /\ left' = (left \/ ~Done(m'))
     /\ decl' = (decl \/ Complete(m', left'))
     /\ loop' = IF loop = "leave"
                THEN (IF Done(m') /\ Running(m') THEN "leave" ELSE IF ~Done(m') /\ Running(m') THEN "finish" ELSE "exit")
                ELSE (IF m' = m THEN "exit" ELSE IF ~Done(m') /\ Running(m') THEN "finish" ELSE "exit")
     /\ UNCHANGED <<ph, ints>>

\* never more, never less: the loop has exited iff the declarative step is complete
\* (a stuck sequencer is detected by the code one - unobservable - edge later)
WalkInv == ph = "walk" =>
             /\ loop = "exit" => decl
             /\ decl /\ loop # "exit" => EdgeF(m) = m
Terminates == ph = "walk" => issued <= 1600
=====================================================================
