CONSTANT MaxPress = 0
CONSTANT Window = 0
CONSTANT Which = 4
INIT Init
NEXT Next
INVARIANT NoError
INVARIANT Ends
INVARIANT Emit
CHECK_DEADLOCK FALSE
