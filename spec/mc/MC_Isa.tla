---------------------------- MODULE MC_Isa ----------------------------
(* C01 / C15: Micro(Rom of the working tree) refines Isa at instruction boundaries.

   From generated boundary states (one instruction at PC plus operands) the
   micro-level machine is stepped edge by edge (ordinary Next steps, history
   variables: snap = abstract state at the starting boundary, k = edges).  At the
   next boundary (or halt) the WHOLE abstract state must equal IsaStep(snap)
   ("and nothing else changes") and k must equal the cost the ISA prescribes.    *)
EXTENDS Gen, TLC, FiniteSets, Json
I == INSTANCE Isa

CONSTANT Suite          \* which family of initial states ("shapes1", "shapes2", ...)
VARIABLES m, snap, k, tag, left, sd
vars == <<m, snap, k, tag, left, sd>>

Limit == 700

\* ---- abstraction --------------------------------------------------------------------
Abs(s) == [s EXCEPT !.maddr = 0, !.ir = 0, !.prw = -1, !.pfw = FALSE, !.wait = FALSE,
                    !.aout = 0, !.ac = FALSE, !.az = FALSE, !.an = FALSE, !.lbr = 0,
                    !.regs = [j \in 0..7 |-> IF j <= 5 THEN s.regs[j] ELSE 0]]
AbsC(s) == Abs(s) @@ [cyc |-> 0]
Boundary(s) == IsInstructionDone(s)

RegSets == { <<128, 77, 255>>, <<33, 156, 0>>, <<3, 3, 3>>, <<200, 17, 64>> }
Defined2 == (16..71) \cup (80..111)
Probe2 == Defined2 \cup {0, 1, 2, 15, 72, 112, 200, 255}

\* Seeds are small tuples <<pc, bytes, r0, r1, r2, fr, sp, pend, ss, ps>>; the machine record is built
\* in a first Next step so that construction is spread over TLC's workers.
Seeds ==
  CASE Suite = "shapes1" ->      \* every one-byte opcode x PCs x register sets x flags x pending interrupt
         { <<pc, <<op, 77, 19>>, rs[1], rs[2], rs[3], fr, 232, pend, 16, 255>> :
             pc \in {16, 238}, op \in 0..239, rs \in RegSets, fr \in {0, 15, 1, 246, 8}, pend \in BOOLEAN }
    [] Suite = "shapes2" ->      \* every two-byte form: first byte x second byte
         { <<16, IF (op \div 4) % 4 >= 2 /\ op % 4 = 3 THEN <<op, 77, op2, 130>> ELSE <<op, op2, 130, 5>>,
              rs[1], rs[2], rs[3], fr, 232, pend, 16, 255>> :
             op \in 240..255, op2 \in Probe2, rs \in RegSets, fr \in {0, 15}, pend \in BOOLEAN }
    [] Suite = "addr" ->         \* operand / stack / code addresses across the RAM / I-O boundary
         { <<pc, <<op, 0, 0, 0>>, r, r, r, 8, sp, pend, 0, 255>> :
             pc \in {100, 237, 238, 239}, sp \in {1, 0, 239, 238},
             op \in {16, 20, 24, 28, 40, 44, 23, 32, 36} \cup (80..95),
             r \in {0, 238, 239, 240, 241, 252, 254, 255}, pend \in BOOLEAN }
         \cup
         { <<16, <<op, op2, 254, 239>>, r, 239, 240, 1, 232, FALSE, 0, 255>> :
             op \in 240..255, op2 \in Defined2, r \in {0, 17, 238, 239, 240, 255} }
         \cup                       \* supervision limits: SP around each band, PC around the limit
         { <<pc, <<op, 0, 0>>, 7, 7, 7, 0, sp, FALSE, ss, 20>> :
             pc \in {19, 20}, op \in {16, 20, 40, 23, 2, 33},
             ss \in {0, 16, 32, 48, 64}, sp \in {160, 161, 175, 176, 177, 191, 192, 193, 207, 208, 209, 223, 224, 239} }
    [] Suite = "alu" ->          \* register-register group + MUL / DIV: all 65 536 value pairs x carry (canonical pair R0, R1)
         { <<16, <<op, 1, 1>>, a, b, 5, c, 232, FALSE, 16, 255>> :
             op \in {16 * g + 4 : g \in {6, 7, 8, 9, 10, 11, 12, 13}}, a \in 0..255, b \in 0..255, c \in 0..1 }
    [] Suite = "alusame" ->      \* Rd = Rs: all 256 values x carry, all four registers as far as they make sense
         { <<16, <<op, 1, 1>>, a, a, a, c, 232, FALSE, 16, 255>> :
             op \in {16 * g + 5 * r : g \in {6, 7, 8, 9, 10, 11, 12, 13}, r \in 0..2}, a \in 0..255, c \in 0..1 }
    [] Suite = "alupairs" ->     \* register-register group: all 16 register pairs (PC and aliasing included) x boundary values x carry
         { <<16, <<16 * g + 4 * rs + rd, 1, 1>>, v[1], v[2], v[3], c, 232, FALSE, 16, 255>> :
             g \in {6, 7, 8, 9, 10, 11, 12, 13}, rs \in 0..3, rd \in 0..3,
             v \in { <<a, b, a>> : a \in {0, 1, 2, 127, 128, 254, 255}, b \in {0, 1, 2, 127, 128, 254, 255} } \cup {<<9, 72, 33>>, <<4, 128, 200>>, <<77, 3, 19>>},
             c \in 0..1 }
    [] Suite = "unary" ->        \* unary group: all 256 values x all 16 flag states x 3 registers (+ DEC register form)
         { <<16, <<op, 1, 1>>, a, a, a, f, 232, FALSE, 16, 255>> :
             op \in {16 * 3 + 4 * x + r : x \in 0..3, r \in 0..2} \cup {16 * 4 + 4 * x + r : x \in 0..2, r \in 0..2}
                    \cup {80 + r : r \in 0..2} \cup {4 + r : r \in 0..2},
             a \in 0..255, f \in 0..15 }

MkS(q) == Mk(q[1], q[2], q[3], q[4], q[5], q[6], q[7], q[8], q[9], q[10], NoCells)

Init == /\ m \in Seeds /\ snap = 0 /\ k = 0 /\ tag = "seed" /\ left = FALSE /\ sd = m
Next ==
  \/ /\ tag = "seed"
     /\ m' = MkS(m) /\ snap' = AbsC(MkS(m)) /\ k' = 0 /\ tag' = "run" /\ left' = FALSE /\ sd' = sd
  \/ /\ tag = "run"
     /\ m' = EdgeF(m)
     /\ k' = k + 1
     /\ snap' = snap /\ sd' = sd
     /\ left' = (left \/ ~Boundary(m'))
     \* done: next boundary reached / halted;  stuck: an edge changes nothing (or the limit is hit)
     /\ tag' = IF (left' /\ Boundary(m')) \/ m'.st # "Running" THEN "done"
               ELSE IF m' = m \/ k' >= Limit THEN "stuck" ELSE "run"

Expect == I!IsaStep(snap)
\* equality of the whole abstract state: result, flags, SP, RAM, outputs ... and nothing else
Refines ==
  tag \in {"done", "stuck"} =>
    LET e == Expect IN
    IF e.st = "Unspec" THEN TRUE
    ELSE IF tag = "stuck" THEN e.st = "Hang"
    ELSE IF e.st = "Hang" THEN FALSE
    ELSE IF m.st = "ErrorStopped" \/ e.st = "ErrorStopped" THEN e.st = m.st
    ELSE AbsC(m) = [e EXCEPT !.cyc = 0]
\* C15: edges between the boundaries = micro-program words + one wait per RAM access
CostOk ==
  tag = "done" /\ m.st = "Running" =>
    LET e == Expect IN e.st = "Running" => k = e.cyc
Diff(x, y) == {f \in DOMAIN x : x[f] # y[f]}
Debug == (Refines /\ CostOk) \/
         (PrintT(<<"MISMATCH", ToString(<<snap.regs[3], BusRead(snap, snap.regs[3]), BusRead(snap, (snap.regs[3] + 1) % 256),
                 BusRead(snap, (snap.regs[3] + 2) % 256), k, Expect.cyc, m.st, Expect.st, tag,
                 IF Expect.st = "Running" /\ m.st = "Running" THEN Diff(AbsC(m), [Expect EXCEPT !.cyc = 0]) ELSE {},
                 m.regs, Expect.regs>>)>>) /\ FALSE)
\* for the harness (S->I): the seed, the number of edges and the micro-level state reached; the check rebuilds the seed state
\* with the verif hooks on the real machine, issues k edges and compares every field
Emit == tag = "done" => PrintT(<<"REPLAY", ToJson([sd |-> sd, k |-> k, s |-> ProjNoRam(m)])>>)
=====================================================================
