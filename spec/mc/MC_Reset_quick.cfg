CONSTANT Depth = 3
CONSTANT LockEdges = 60
INIT Init
NEXT Next
INVARIANT ResetProps
INVARIANT LockInv
CHECK_DEADLOCK FALSE
