-------------------------- MODULE MC_TypeOK --------------------------
(* C13 on the specification side: every public call is an always-enabled,
   total action that preserves TypeOK - for hostile RAM images (bytes that are
   no instructions, PC / SP anywhere), all stack sizes and limits, hostile
   voltages (NaN, +-inf, out of range) and every bus address.  Explored with
   TLC -simulate (random walks); the invariant is evaluated at every state.
   (TLC cannot make Rust panic: the exploration engine for the code itself is
   the harness's bulk driver; this model supplies the enabledness oracle and is
   the reference for the validated sample of that driver's traces.)            *)
EXTENDS Gen, TLC

VARIABLES m
HostileBytes == {0, 1, 2, 15, 44, 76, 79, 127, 128, 224, 239, 240, 249, 251, 255}
Volts == {0, 1, 4999, 5000, 5001, -1, 70000, NaNV, NegInfV, PosInfV}
Images == { [i \in 1..24 |-> ((i * a + b) % 256)] : a \in {1, 7, 37, 101, 255}, b \in HostileBytes }

Init == m = MachineInit
Next ==
  \/ m' = EdgeF(m)
  \/ m' = KeyIntF(m)
  \/ m' = ContinueF(m)
  \/ m' = CpuResetF(m)
  \/ m' = MasterResetF(m)
  \/ \E img \in Images, ss \in {0, 16, 32, 48, 64, -1}, ps \in {-2, -1, 0, 3, 24, 255} : m' = LoadF(m, img, ss, ps)
  \/ \E k \in 0..3, v \in HostileBytes : m' = SetInput(m, k, v)
  \/ \E x \in Volts : \/ m' = [m EXCEPT !.bd = SetTemp(@, x)]
                      \/ m' = [m EXCEPT !.bd = SetAnalogInput1(@, x)]
                      \/ m' = [m EXCEPT !.bd = SetAnalogInput2(@, x)]
  \/ \E b \in BOOLEAN : \/ m' = [m EXCEPT !.bd = SetJumper1(@, b)]
                        \/ m' = [m EXCEPT !.bd = SetJumper2(@, b)]
                        \/ \E k \in 1..3 : m' = [m EXCEPT !.bd = SetUio(@, k, b)]
  \/ \E a \in 240..255, v \in HostileBytes : m' = BusWrite(m, a, v)
  \/ \E a \in 0..239, v \in HostileBytes : a % 17 = 0 /\ m' = BusWrite(m, a, v)
  \* registers anywhere (what a program can do with LDSP / jumps), to reach every corner quickly
  \/ \E sp \in HostileBytes, pc \in HostileBytes : m' = [m EXCEPT !.regs[5] = sp, !.regs[3] = pc]

TypeInv == TypeOK(m) /\ \A a \in 240..255 : BusRead(m, a) \in 0..255
=====================================================================
