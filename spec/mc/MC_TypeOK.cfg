INIT Init
NEXT Next
INVARIANT TypeInv
CHECK_DEADLOCK FALSE
