INIT Init
NEXT Next
INVARIANT MapInv
INVARIANT Emit
CHECK_DEADLOCK FALSE
