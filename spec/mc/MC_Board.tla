-------------------------- MODULE MC_Board --------------------------
(* C14: the MR2DA2 board.  BFS over the board states reachable with an alphabet
   of port writes (0xF0-0xF3) and external setters whose values sit on both
   sides of every comparison of the model (DAC bytes, millivolts around
   10*byte, the clamp boundaries and the non-finite classes), all 8 interrupt
   sources x both polarities.  At every state: StateInv, and for EVERY action
   of the alphabet StepOK (the action-level statements of the property).
   Every state is printed with the signature of all its successors so that the
   harness can restore it on the real board and compare each transition (S->I). *)
EXTENDS Machine, TLC, Json

CONSTANT Tier, Depth
VARIABLES w,           \* [bd |-> board]
          d            \* number of actions applied (hidden by the VIEW)
b == w.bd

W(o) == [op |-> "bus_write", a |-> o[1], v |-> o[2]]
Bytes == IF Tier = "quick" THEN <<0, 100, 255>> ELSE <<0, 1, 100, 254, 255>>
Volts == IF Tier = "quick" THEN <<0, 1000, 1001, 2551, PosInfV, NaNV>>
         ELSE <<0, 9, 10, 11, 999, 1000, 1001, 2540, 2550, 2551, 5000, 5001, -1, NaNV, NegInfV, PosInfV>>
Icrs == [i \in 1..16 |-> 192 + 32 + (IF i > 8 THEN 8 ELSE 0) + ((i - 1) % 8)]   \* IE, source, polarity
SeqMap(f(_), s) == [i \in 1..Len(s) |-> f(s[i])]
Alpha ==
  SeqMap(LAMBDA v : [op |-> "bus_write", a |-> 240, v |-> v], Bytes)
  \o SeqMap(LAMBDA v : [op |-> "bus_write", a |-> 241, v |-> v], Bytes)
  \o SeqMap(LAMBDA v : [op |-> "bus_write", a |-> 242, v |-> v], <<0, 5, 7, 64, 128, 128 + 5, 128 + 7>>)
  \o SeqMap(LAMBDA v : [op |-> "bus_write", a |-> 242, v |-> v], Icrs)
  \o << [op |-> "bus_write", a |-> 243, v |-> 0] >>
  \o SeqMap(LAMBDA x : [op |-> "set_ai1", x |-> x], Volts)
  \o SeqMap(LAMBDA x : [op |-> "set_ai2", x |-> x], Volts)
  \o SeqMap(LAMBDA x : [op |-> "set_temp", x |-> x], Volts)
  \o << [op |-> "set_j1", v |-> TRUE], [op |-> "set_j1", v |-> FALSE],
        [op |-> "set_j2", v |-> TRUE], [op |-> "set_j2", v |-> FALSE],
        [op |-> "set_uio", k |-> 1, v |-> TRUE], [op |-> "set_uio", k |-> 1, v |-> FALSE],
        [op |-> "set_uio", k |-> 2, v |-> TRUE], [op |-> "set_uio", k |-> 2, v |-> FALSE],
        [op |-> "set_uio", k |-> 3, v |-> TRUE], [op |-> "set_uio", k |-> 3, v |-> FALSE],
        [op |-> "set_di1", v |-> 0], [op |-> "set_di1", v |-> 255] >>
NA == Len(Alpha)

Apply(x, o) == ApplyOp(x, o)
Rd(x, a) == BusRead(x, a)

\* ---- state invariant: the status always reflects inputs, DACs, configuration ----
Max(x, y) == IF x > y THEN x ELSE y
StateInv ==
  /\ BoardTypeOK(b)                                         \* clamped voltages, DAC voltage = byte / 100
  /\ Bit(b.dasr, 3) = (b.ai1 > b.ao1)                       \* comparator 1
  /\ Bit(b.dasr, 4) = (Max(b.ai2, b.temp) > b.ao2)          \* comparator 2: larger of input 2 and temperature
  /\ b.fan = FanRpm(b.do1)
  /\ Rd(w, 242) \in {FanPeriodIdeal(b.do1), FanPeriodIdeal(b.do1) + 1}   \* 255 - 255 V / 2.55 V, one count of quantisation
  /\ Rd(w, 240) = b.di1 /\ Rd(w, 241) = b.dasr /\ Rd(w, 243) = b.daisr

\* ---- action-level statements -------------------------------------------------------
Level(x, src) == CASE src \in 1..3 -> Bit(x.dasr, src - 1)
                   [] src = 4 -> Bit(x.dasr, 3)
                   [] src = 5 -> Bit(x.dasr, 4)
                   [] src = 6 -> Bit(x.dasr, 6)
                   [] OTHER -> FALSE
External(o) == o.op \in {"set_j1", "set_uio", "set_ai1", "set_ai2", "set_temp"}
               \/ (o.op = "bus_write" /\ o.a \in {240, 241})
StepOK(o) ==
  LET x == b
      y == Apply(w, o).bd
      src == Source(x)
      trans == /\ External(o) /\ Level(x, src) # Level(y, src)
               /\ Level(y, src) = ~Falling(x)
  IN
  /\ o.op = "set_ai1" => y.ai1 = Clamp(o.x) /\ y.ai2 = x.ai2 /\ y.temp = x.temp
  /\ o.op = "set_ai2" => y.ai2 = Clamp(o.x) /\ y.ai1 = x.ai1 /\ y.temp = x.temp
  /\ o.op = "set_temp" => y.temp = Clamp(o.x) /\ y.ai1 = x.ai1 /\ y.ai2 = x.ai2
  /\ o.op \in {"set_ai1", "set_ai2", "set_temp"} /\ o.x \in {NaNV, NegInfV} => Clamp(o.x) = 0
  /\ o.op = "set_di1" => y.di1 = o.v
  /\ o.op = "set_j1" => Bit(y.dasr, 6) = o.v
  /\ o.op = "set_j2" => Bit(y.dasr, 7) = o.v
  /\ o.op = "set_uio" => IF UioDir(x, o.k) THEN y = x ELSE Bit(y.dasr, o.k - 1) = o.v
  /\ o.op = "bus_write" /\ o.a = 240 => y.do1 = o.v /\ y.ao1 = 10 * o.v
  /\ o.op = "bus_write" /\ o.a = 241 => y.do2 = o.v /\ y.ao2 = 10 * o.v
  \* the interrupt flip-flop and the source flag are raised exactly on the configured transition
  /\ IF trans THEN y.daisr = (x.daisr | (ISRC + IFF))
     ELSE IF o.op = "bus_write" /\ o.a = 243 THEN y.daisr = Clr8(x.daisr, IFF)
     ELSE IF o.op = "bus_write" /\ o.a = 242 /\ o.v >= 192 THEN y.daisr = Clr8(x.daisr, IPEND + IREQ + IFF)
     ELSE y.daisr = x.daisr
StepInv == \A i \in 1..NA : StepOK(Alpha[i])

\* ---- emission for the harness --------------------------------------------------------
BSig(x) == << x.bd.di1, x.bd.do1, x.bd.do2, x.bd.temp, x.bd.ai1, x.bd.ai2, x.bd.ao1, x.bd.ao2,
              x.bd.dasr, x.bd.daisr, x.bd.daicr, x.bd.fan, B2N(x.bd.ud1), B2N(x.bd.ud2), B2N(x.bd.ud3),
              Rd(x, 240), Rd(x, 241), Rd(x, 242), Rd(x, 243) >>
Emit == PrintT(<<"REPLAY", ToJson([kind |-> "state", pre |-> BSig(w),
                                   rows |-> [i \in 1..NA |-> BSig(Apply(w, Alpha[i]))]])>>)
ASSUME PrintT(<<"REPLAY", ToJson([kind |-> "alpha", ops |-> Alpha])>>)

Init == w = [bd |-> BoardInit] /\ d = 0
Next == d < Depth /\ d' = d + 1 /\ \E i \in 1..NA : w' = Apply(w, Alpha[i])
View == w
=====================================================================
