CONSTANT MaxLen = 5
INIT Init
NEXT Next
INVARIANT Same
CHECK_DEADLOCK FALSE
