---------------------------- MODULE MC_Ctl ----------------------------
(* C09: the control-flow graph of the micro-sequencer, explored exhaustively.

   Abstract control machine: (maddr, ir) plus bookkeeping; every data-dependent
   input of the next-address logic (flags, ALU condition outputs, pending
   interrupt, and the byte loaded into the IR at an IR load) is chosen
   nondeterministically, so the explored graph is the graph over all input
   combinations.  Rom is the control store of the working tree; NextAddr is
   bound to the real next-address function on its whole domain by the harness
   (MC_CtlTables + `vh nextaddr-check`), so this IS the graph of the code.

   d1  : the first opcode byte of the current instruction is a defined one
   d2  : its second opcode byte (if one was loaded) is a defined one
   k   : edges since the last instruction fetch word (capped)
   halted : a 0x00 / 0x01 byte was loaded (the machine stops; terminal)       *)
EXTENDS Micro, TLC, FiniteSets

VARIABLES maddr, ir, d1, d2, k, halted, two
vars == <<maddr, ir, d1, d2, k, halted, two>>

Undefined1 == (76..79) \cup (224..239)                   \* 0x4C-0x4F, 0xE0-0xEF
Defined1 == (0..255) \ Undefined1
Defined2 == (0..1) \cup (16..71) \cup (80..111)          \* STOP/0 + MOV CMP BITT LDSP LDFR BITS BITC
Cap == 80
Bound == 40                                               \* longest non-loop routine incl. interrupt entry
LoopPages == {11, 12}                                     \* MUL 0xB_, DIV 0xC_ : data-driven loops

IsFetch(a) == MAC3(Word(a))
IrReset(w) == MAC1(w) /\ MAC2(w)
IrLoad(w) == ~IrReset(w) /\ MAC0(w) /\ MAC2(w)

\* inputs the next-address logic of word w can depend on
Inputs(w) ==
  LET c == CondClass(w) IN
  CASE c \in {"const", "dispatch"} -> {[f |-> 0, ac |-> FALSE, az |-> FALSE, an |-> FALSE, pei |-> FALSE]}
    [] c = "jrcond" -> {[f |-> x, ac |-> FALSE, az |-> FALSE, an |-> FALSE, pei |-> FALSE] : x \in 0..7}
    [] c = "flagC" -> {[f |-> x, ac |-> FALSE, az |-> FALSE, an |-> FALSE, pei |-> FALSE] : x \in 0..1}
    [] c = "aluC" -> {[f |-> 0, ac |-> x, az |-> FALSE, an |-> FALSE, pei |-> FALSE] : x \in BOOLEAN}
    [] c = "aluZ" -> {[f |-> 0, ac |-> FALSE, az |-> x, an |-> FALSE, pei |-> FALSE] : x \in BOOLEAN}
    [] c = "aluN" -> {[f |-> 0, ac |-> FALSE, az |-> FALSE, an |-> x, pei |-> FALSE] : x \in BOOLEAN}
    [] c = "int" -> {[f |-> x, ac |-> FALSE, az |-> FALSE, an |-> FALSE, pei |-> y] : x \in {0, 8}, y \in BOOLEAN}

\* the classification above loses nothing: for every word of the store the next address
\* over ALL 2^9 input combinations equals the next address over Inputs(w)  (checked once)
AllInputs == {[f |-> x, ac |-> a, az |-> z, an |-> n, pei |-> p] :
                x \in 0..15, a \in BOOLEAN, z \in BOOLEAN, n \in BOOLEAN, p \in BOOLEAN}
NextSet(w, i, S) == {NextAddr(w, i, s.f, s.ac, s.az, s.an, s.pei, FALSE) : s \in S}
ASSUME \A a \in 0..511 : \A i \in (0..7) \cup {255} :
         NextSet(Word(a), i, AllInputs) = NextSet(Word(a), i, Inputs(Word(a)))
\* every fetch word loads the IR (so an instruction boundary is followed by a first-byte load)
ASSUME \A a \in 0..511 : IsFetch(a) => IrLoad(Word(a))

Init == /\ \/ maddr = 0 /\ ir = 2                        \* reset
           \/ /\ maddr \in {a \in 0..511 : IsFetch(a)}     \* every instruction fetch (the IR still holds
              /\ ir = (maddr \div 32) * 16 + 2            \*  an opcode of the page just executed)
        /\ d1 = TRUE /\ d2 = TRUE /\ k = 0 /\ halted = FALSE /\ two = FALSE

Next ==
  /\ ~halted
  /\ LET w0 == Word(maddr) IN
     \E b \in IF IrLoad(w0) THEN 0..255 ELSE {0} :
       LET ir2 == IF IrReset(w0) THEN 2 ELSE IF IrLoad(w0) THEN b ELSE ir
           first == IrLoad(w0) /\ IsFetch(maddr)
           second == IrLoad(w0) /\ ~IsFetch(maddr)
       IN
       /\ \E s \in Inputs(w0) : maddr' = NextAddr(w0, ir2, s.f, s.ac, s.az, s.an, s.pei, FALSE)
       /\ ir' = ir2
       /\ d1' = IF first THEN b \in Defined1 ELSE d1
       /\ d2' = IF first THEN TRUE ELSE IF second THEN b \in Defined2 ELSE d2
       /\ two' = IF first THEN FALSE ELSE IF second THEN TRUE ELSE two
       /\ k' = IF IsFetch(maddr') THEN 0
               ELSE IF (ir2 \div 16) \in LoopPages THEN k      \* steps inside MUL / DIV are not counted
               ELSE IF k < Cap THEN k + 1 ELSE k
       /\ halted' = (IrLoad(w0) /\ b \in {0, 1})      \* the halting edge still moves the sequencer

Def == d1 /\ d2
\* only programmed control words are visited while a defined instruction executes
Programmed == Def /\ ~halted => Word(maddr) # 0
\* the sequencer stays in the routine (page) of the instruction register
InRoutine == maddr \div 32 = ir \div 16
\* a defined instruction returns to a fetch word within a bounded number of steps;
\* the only exception are the data-driven MUL / DIV loops (termination: concrete runs)
Completes == Def /\ ~halted /\ (ir \div 16) \notin LoopPages => k <= Bound
\* undefined first bytes never complete ...
UndefinedNeverCompletes == ~d1 /\ ~halted => ~IsFetch(maddr)
\* MUL / DIV: the loop bodies never leave their page except through their fetch word
LoopsStayInside == (ir \div 16) \in LoopPages /\ d1 => maddr \div 32 = ir \div 16
=====================================================================
