CONSTANT Suite = "alupairs"
INIT Init
NEXT Next
INVARIANT Debug
INVARIANT Emit
CHECK_DEADLOCK FALSE
