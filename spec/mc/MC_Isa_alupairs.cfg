CONSTANT Suite = "alupairs"
INIT Init
NEXT Next
INVARIANT Debug
CHECK_DEADLOCK FALSE
