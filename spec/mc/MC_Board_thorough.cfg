CONSTANT Tier = "thorough"
CONSTANT Depth = 3
INIT Init
NEXT Next
INVARIANT StateInv
INVARIANT StepInv
INVARIANT Emit
CHECK_DEADLOCK FALSE
