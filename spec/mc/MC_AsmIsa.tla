--------------------------- MODULE MC_AsmIsa ---------------------------
(* Consistency of the two instruction tables of the specification: the encoder
   table of Asm.tla (what the assembler emits) and the decoder of Isa.tla (what
   the CPU executes).  For EVERY instruction form x operand shape x register:
     - the emitted first byte is a defined opcode, the second opcode byte of the
       two-byte forms a defined second byte (so the quantifier of C01 / C09,
       "every instruction the assembler can emit", lies inside Isa's defined set);
     - decoding the bytes with the field layout Isa.tla uses gives back the
       instruction group, the registers and the addressing modes of the AST node;
     - the number of bytes is the number of bytes the ISA-level semantics consumes
       (opcode + operand bytes fetched through (PC+) / ((PC+))).                  *)
EXTENDS Asm, TLC

VARIABLES node
Regs == 0..3
OpR(r) == [k |-> "r", r |-> r]
SrcOps == {OpR(r) : r \in Regs} \cup {[k |-> "mr", r |-> r] : r \in Regs} \cup {[k |-> "di", r |-> r] : r \in Regs}
          \cup {[k |-> "ddi", r |-> r] : r \in Regs} \cup {[k |-> "mc", c |-> [n |-> 66]], [k |-> "c", c |-> [n |-> 55]]}
DstOps == {o \in SrcOps : o.k # "c"}
MemOps == {o \in SrcOps : o.k \in {"mr", "mc"}}
Nodes ==
  {Ins(m, <<>>) : m \in NoOp}
  \cup {Ins(m, <<OpR(r)>>) : m \in Reg1, r \in Regs}
  \cup {Ins(m, <<OpR(a), OpR(b)>>) : m \in Reg2, a \in Regs, b \in Regs}
  \cup {Ins(m, <<o>>) : m \in Src1, o \in SrcOps}
  \cup {Ins(m, <<d, s>>) : m \in DstSrc, d \in DstOps, s \in SrcOps}
  \cup {Ins(MLD, <<OpR(r), s>>) : r \in Regs, s \in MemOps \cup {[k |-> "c", c |-> [n |-> 55]]}}
  \cup {Ins(MST, <<d, OpR(r)>>) : d \in MemOps, r \in Regs}
Init == node \in Nodes
Next == UNCHANGED node

Undefined1 == (76..79) \cup (224..239)
Defined2 == (16..71) \cup (80..111)
Bytes == Encode({}, node, 0)
Hi(b) == b \div 16
Md(b) == (b \div 4) % 4
Rg(b) == b % 4
\* the instruction group Isa.tla executes for a first byte / second byte
Group1(b) == CASE b = 1 -> M_STOP [] b \in 2..3 -> M_NOP [] b \in 4..7 -> M_CLR [] b \in 8..11 -> M_EI [] b \in 12..15 -> M_DI
               [] b \in 16..19 -> M_PUSH [] b \in 20..22 -> M_POP [] b = 23 -> M_RET [] b \in 24..27 -> M_PUSHF [] b \in 28..31 -> M_POPF
               [] b \in 44..47 -> M_RETI [] b \in 48..51 -> M_COM [] b \in 52..55 -> M_NEG [] b \in 56..59 -> M_LSR [] b \in 60..63 -> M_ASR
               [] b \in 64..67 -> M_RRC [] b \in 68..71 -> M_INC [] b \in 72..75 -> M_TST [] b \in 80..95 -> M_DEC
               [] b \in 96..111 -> M_ADD [] b \in 112..127 -> M_ADC [] b \in 128..143 -> M_SUB [] b \in 144..159 -> M_AND
               [] b \in 160..175 -> M_OR [] b \in 176..191 -> M_MUL [] b \in 192..207 -> M_DIV [] b \in 208..223 -> M_XOR
               [] OTHER -> <<>>
Group2(b) == CASE Hi(b) = 1 -> M_MOV [] Hi(b) = 2 -> M_CMP [] Hi(b) = 3 -> M_BITT [] b \in 64..67 -> M_LDSP [] b \in 68..71 -> M_LDFR
               [] Hi(b) = 5 -> M_BITS [] Hi(b) = 6 -> M_BITC [] OTHER -> <<>>
\* mnemonics that are spellings of another group
Canon(m) == CASE m = M_LSL -> M_ADD [] m = M_RLC -> M_ADC [] m = MLD -> M_MOV [] m = MST -> M_MOV [] OTHER -> m
ModeOf(o) == Mode(o)
Consistent ==
  LET b == Bytes  m == node.m  ops == node.ops IN
  /\ b[1] \notin Undefined1 /\ b[1] \in 1..255
  /\ IF b[1] < 240 THEN
       /\ Group1(b[1]) = Canon(m) \/ (m = M_POP /\ b[1] = 23)            \* POP PC is RET
       /\ m \in Reg1 \ {M_LSL, M_RLC} => Rg(b[1]) = ops[1].r
       /\ m \in {M_LSL, M_RLC} => Rg(b[1]) = ops[1].r /\ Md(b[1]) = ops[1].r
       /\ m \in Reg2 => Rg(b[1]) = ops[1].r /\ Md(b[1]) = ops[2].r        \* rd in bits 1..0, rs in bits 3..2
       /\ m = M_DEC => Md(b[1]) = ModeOf(ops[1]) /\ Rg(b[1]) = RegOf(ops[1]) /\ Len(b) = 1 + OpSize(ops[1])
       /\ m \notin {M_DEC} => Len(b) = 1
     ELSE
       LET src == IF m \in Src1 THEN ops[1] ELSE ops[2]
           i2 == 2 + OpSize(src)
       IN /\ Md(b[1]) = ModeOf(src) /\ Rg(b[1]) = RegOf(src)
          /\ b[i2] \in Defined2
          /\ Group2(b[i2]) = Canon(m)
          /\ m \notin Src1 => Md(b[i2]) = ModeOf(ops[1]) /\ Rg(b[i2]) = RegOf(ops[1]) /\ Len(b) = i2 + OpSize(ops[1])
          /\ m \in Src1 => Len(b) = i2
          /\ HasExtra(src) => b[2] = ConstVal({}, src.c)
=====================================================================
