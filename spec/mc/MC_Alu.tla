--------------------------- MODULE MC_Alu ---------------------------
(* C08.  (1) BFS over (sel, a): the invariant evaluates the algebraic facts of
   the property for all 512 (b, carry-in) of that state, i.e. the complete
   2 097 152-point domain;  (2) the reference table is serialised for the
   harness, which compares AluOutput::from_input on every point.          *)
EXTENDS Alu, TLC, Json, IOUtils

VARIABLES sel, a
Init == sel \in 0..15 /\ a = 0
Next == a < 255 /\ a' = a + 1 /\ sel' = sel
Facts == \A b \in 0..255, cin \in BOOLEAN : AluFacts(sel, a, b, cin)

Pack(r) == r.out + 256 * B2N(r.c) + 512 * B2N(r.z) + 1024 * B2N(r.n)
Table == [s \in 0..15 |-> [i \in 0..131071 |->
            Pack(AluF(s, i \div 512, (i \div 2) % 256, i % 2 = 1))]]
\* JsonSerialize writes sequences as arrays; functions over 0..n are turned into tuples
AsSeq(f, n) == [i \in 1..n |-> f[i - 1]]
ASSUME JsonSerialize(IOEnv.OUT, AsSeq([s \in 0..15 |-> AsSeq(Table[s], 131072)], 16))
=====================================================================
