CONSTANT MaxPress = 2
CONSTANT Window = 70
CONSTANT Which = 4
INIT Init
NEXT Next
INVARIANT NoError
INVARIANT Ends
INVARIANT NoSpurious
INVARIANT AtEnd
INVARIANT Transparent
INVARIANT Emit
PROPERTY EntryStep
CHECK_DEADLOCK FALSE
