--------------------------- MODULE MC_Reset ---------------------------
(* (alphabet: 20 actions)
   C07: CPU reset, master reset and program load restore exactly the documented
   state, after ANY history.

   Phase "hist": all histories up to length Depth over an alphabet of loads,
   clock edges, key interrupt, continue, input / board-input changes and
   program-driven port writes.  At every state reached (= after every prefix)
   the three reset operations are applied and the field-by-field statements of
   the property are checked (ResetProps).
   Phase "lock": from every such state a program is loaded and run in lock step
   with the same program loaded into a newly created machine: the cores must be
   equal after every clock cycle (LockInv).                                    *)
EXTENDS Machine, TLC, Json

CONSTANT Depth, LockEdges
VARIABLES m, f, d, ph        \* machine with a history, fresh twin (lock phase), history length, phase
vars == <<m, f, d, ph>>

\* program 1: uses stack, RAM, FC input, FE/FF outputs:  LDSP 0xEF; loop: LD R0,(0xFC); ADD R1,R0; PUSH R1; POP R2; ST (0xFF),R2; ST (0x80),R1; INC R1; JR loop
P1 == <<251, 239, 64, 255, 252, 16, 97, 17, 22, 242, 31, 255, 241, 31, 128, 69, 32, 241>>
\* program 2: writes the board ports and enables the key interrupt, then spins: MOV (0xF0),200; MOV (0xF2),0x85; MOV (0xF9),1; EI; JR -2
P2 == <<251, 200, 31, 240, 251, 133, 31, 242, 251, 1, 31, 249, 8, 32, 254>>
Progs == <<[image |-> P1, ss |-> 32, ps |-> 255], [image |-> P2, ss |-> 16, ps |-> -1]>>

Alphabet ==
  << [op |-> "load", image |-> P1, ss |-> 32, ps |-> 255], [op |-> "load", image |-> P2, ss |-> -1, ps |-> -2],
     [op |-> "edges", n |-> 1], [op |-> "edges", n |-> 9], [op |-> "edges", n |-> 40],
     [op |-> "key_int"], [op |-> "continue"],
     [op |-> "set_input", k |-> 0, v |-> 77], [op |-> "set_input", k |-> 3, v |-> 200],
     [op |-> "set_temp", x |-> 2600], [op |-> "set_j1", v |-> TRUE], [op |-> "set_uio", k |-> 2, v |-> TRUE], [op |-> "set_di1", v |-> 99],
     [op |-> "bus_write", a |-> 241, v |-> 90], [op |-> "bus_write", a |-> 242, v |-> 198], [op |-> "bus_write", a |-> 253, v |-> 147],
     [op |-> "bus_write", a |-> 250, v |-> 65], [op |-> "bus_write", a |-> 239, v |-> 90], [op |-> "bus_write", a |-> 18, v |-> 7], [op |-> "bus_write", a |-> 251, v |-> 248] >>
NA == Len(Alphabet)
Do(x, o) == IF o.op = "edges" THEN RunEdges(x, o.n) ELSE ApplyOp(x, o)

Zero(n) == [i \in 0..n |-> 0]
\* ---- the documented effect, field by field ---------------------------------------------
CpuResetProps(x) ==
  LET r == CpuResetF(x) IN
  /\ r.regs = Zero(7) /\ r.ir = 2 /\ r.maddr = 0 /\ r.prw = -1 /\ ~r.pfw /\ ~r.pei /\ ~r.wait
  /\ r.aout = 0 /\ ~r.ac /\ ~r.az /\ ~r.an /\ r.lbr = 0
  /\ r.outr = Zero(1) /\ r.micr = 0 /\ r.ucr = 0 /\ r.st = "Running"
  \* untouched: RAM, input registers, timer settings, the extension board, limits
  /\ r.ram = x.ram /\ r.inr = x.inr /\ r.ten = x.ten /\ r.td1 = x.td1 /\ r.td2 = x.td2 /\ r.td3 = x.td3
  /\ r.bd = x.bd /\ r.ss = x.ss /\ r.ps = x.ps
MasterResetProps(x) ==
  LET r == MasterResetF(x)  c == CpuResetF(x) IN
  /\ r.regs = c.regs /\ r.ir = c.ir /\ r.maddr = c.maddr /\ r.prw = c.prw /\ r.pfw = c.pfw /\ r.pei = c.pei
  /\ r.wait = c.wait /\ r.outr = c.outr /\ r.micr = c.micr /\ r.ucr = c.ucr /\ r.st = c.st
  /\ r.inr = Zero(3) /\ ~r.ten /\ r.td1 = 0 /\ r.td2 = 0 /\ r.td3 = 0
  \* board outputs: both output ports (digital / analog), interrupt control, fan, UIO directions
  /\ r.bd.do1 = 0 /\ r.bd.do2 = 0 /\ r.bd.ao1 = 0 /\ r.bd.ao2 = 0 /\ r.bd.daicr = 0 /\ r.bd.fan = 0
  /\ ~r.bd.ud1 /\ ~r.bd.ud2 /\ ~r.bd.ud3
  \* never RAM, never the board's physical inputs
  /\ r.ram = x.ram /\ r.bd.di1 = x.bd.di1 /\ r.bd.temp = x.bd.temp /\ r.bd.ai1 = x.bd.ai1 /\ r.bd.ai2 = x.bd.ai2
  /\ (r.bd.dasr & 199) = (x.bd.dasr & 199)          \* jumpers and UIO pin levels
  /\ r.ss = x.ss /\ r.ps = x.ps
LoadProps(x) ==
  \A i \in 1..2 :
    LET p == Progs[i]  r == LoadF(x, p.image, p.ss, p.ps)  mr == MasterResetF(x) IN
    /\ \A a \in 0..239 : r.ram[a] = (IF a < Len(p.image) THEN p.image[a + 1] ELSE 0)
    /\ r.ss = p.ss /\ r.ps = (IF p.ps = -1 THEN Len(p.image) ELSE p.ps)
    /\ [r EXCEPT !.ram = mr.ram, !.ss = mr.ss, !.ps = mr.ps] = mr
ResetProps == ph = "hist" => CpuResetProps(m) /\ MasterResetProps(m) /\ LoadProps(m)

\* ---- lock step against a newly created machine ---------------------------------------------
\* everything a program restricted to RAM and the FC-FF registers can observe or change
Core(x) == [maddr |-> x.maddr, ir |-> x.ir, regs |-> x.regs, prw |-> x.prw, pfw |-> x.pfw, pei |-> x.pei, wait |-> x.wait,
            st |-> x.st, aout |-> x.aout, ac |-> x.ac, az |-> x.az, an |-> x.an, lbr |-> x.lbr, ss |-> x.ss, ps |-> x.ps,
            ram |-> x.ram, inr |-> x.inr, outr |-> x.outr, micr |-> x.micr]
LockInv == ph = "lock" => Core(m) = Core(f)

Init == m = MachineInit /\ f = 0 /\ d = 0 /\ ph = "hist"
Next ==
  \/ /\ ph = "hist" /\ d < Depth
     /\ \E i \in 1..NA : m' = Do(m, Alphabet[i])
     /\ d' = d + 1 /\ UNCHANGED <<f, ph>>
  \/ /\ ph = "hist"
     /\ m' = LoadF(m, P1, 32, 255) /\ f' = LoadF(MachineInit, P1, 32, 255) /\ ph' = "lock" /\ d' = 0
  \/ /\ ph = "lock" /\ d < LockEdges
     /\ m' = EdgeF(m) /\ f' = EdgeF(f) /\ d' = d + 1 /\ ph' = ph
=====================================================================
