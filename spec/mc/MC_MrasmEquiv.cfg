CONSTANT MaxLen = 6
INIT Init
NEXT Next
INVARIANT Same
CHECK_DEADLOCK FALSE
