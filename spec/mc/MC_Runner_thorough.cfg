CONSTANT Tier = "thorough"
INIT Init
NEXT Next
INVARIANT CyclesOk
INVARIANT VerifyConsistent
INVARIANT Emit
CHECK_DEADLOCK FALSE
