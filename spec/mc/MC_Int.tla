---------------------------- MODULE MC_Int ----------------------------
(* C04: key interrupts are taken once, at an instruction boundary, and transparently.

   One program (main + interrupt routine at address 2 that preserves the
   registers it uses and counts its invocations in RAM cell CounterCell) is run
   edge by edge on Micro.tla; the interrupt key may be pressed before ANY clock
   edge: once (all trigger cycles 0..T), or twice with the second press within
   Window edges of the first.  History variables:
     entries   number of times the sequencer entered the interrupt routine (0x010)
     eff       number of presses that found the key-edge enable bit set
     lit       number of presses made while key enable AND IE were set, outside the
               instructions that change IE themselves and outside the entry sequence
     dropped   number of pending interrupts discarded at a sampling point with IE clear
   Pass 1 (MaxPress = 0) prints the final state of the uninterrupted run; pass 2
   reads it back (IOEnv.REF) and compares every final state with it.            *)
EXTENDS Gen, TLC, Json, IOUtils, FiniteSets

CONSTANT MaxPress, Window, Which
VARIABLES m, t, np, tfirst, entries, eff, lit, dropped, sched, watch, excused, conts
vars == <<m, t, np, tfirst, entries, eff, lit, dropped, sched, watch, excused, conts>>

CounterCell == 144     \* 0x90
Limit == 2500

\* second program: the routine is entered while SP is deep in a CALL chain and flags carry state:
\* JR main; isr (uses R1): PUSH R1; LD R1,(0x90); INC R1; ST (0x90),R1; POP R1; RETI
\* main: LDSP 0xEF; MOV (0xF9),1; EI; LD R0,200; LD R2,3; LD R1,3;
\*   l: ADD R0,R0 (carry); ADC R2,R0; PUSH R2; CALL s; POP R2; LSR R0; PUSHF; POPF; MOV (0xFE),0x55; DEC R1; JZC l; DI; STOP;  s: ST (0xFF),R0; RET
ProgInt2 == <<32, 10, 17, 255, 144, 17, 69, 241, 31, 144, 21, 44, 251, 239, 64, 251, 1, 31, 249, 8, 251, 200, 16, 251, 3, 18, 251, 3, 17, 96, 114, 18, 40, 47, 22, 56, 24, 28, 251, 85, 31, 254, 81, 38, 240, 12, 1, 240, 31, 255, 23>>
\* third program: clears the key enable bit for a few instructions while IE stays set, pauses with STOP while interrupts are enabled
\* (the continue key resumes it), then finishes:  ...; EI; LD R1,5; INC R2; MOV (0xF9),0; NOP; NOP; MOV (0xF9),1; NOP; STOP; INC R2; ADD R0,R2; PUSH R1; POP R1; DI; STOP
ProgInt3 == <<32, 10, 16, 255, 144, 16, 68, 240, 31, 144, 20, 44, 251, 239, 64, 251, 1, 31, 249, 8, 251, 5, 17, 70, 251, 0, 31, 249, 2, 2, 251, 1, 31, 249, 2, 1, 70, 104, 17, 21, 12, 1>>
\* fourth program: the routine re-enables interrupts itself (EI after the counter update), so a second press inside the routine nests:
\* isr: PUSH R1; LD R1,(0x90); INC R1; ST (0x90),R1; EI; NOP; INC R1; NOP; POP R1; RETI    main: LDSP 0xEF; MOV (0xF9),1; EI; LD R0,4; l: INC R2; DEC R0; JZC l; DI; STOP
ProgInt4 == <<32, 14, 17, 255, 144, 17, 69, 241, 31, 144, 8, 2, 69, 2, 21, 44, 251, 239, 64, 251, 1, 31, 249, 8, 251, 4, 16, 70, 80, 38, 252, 12, 1>>
Prog == CASE Which = 1 -> ProgInt [] Which = 2 -> ProgInt2 [] Which = 3 -> ProgInt3 [] Which = 4 -> ProgInt4
MaxCont == IF Which = 3 THEN 1 ELSE 0
Start == SetInput(LoadF(MachineInit, Prog, 16, 255), 0, 3)

IEnow(x) == (x.regs[4] \div 8) % 2 = 1
\* instructions that change IE themselves (EI, DI, POPF, RETI, LDFR) or the entry sequence: a press there may be
\* sampled with a different IE than it saw
InWindowInsn(x) == x.ir \in (8..15) \cup (28..31) \cup (44..47) \cup (68..71) \/ (x.maddr \in 16..23 /\ x.ir = 2)
                   \/ x.ir >= 240   \* the first byte of a two-byte form: the second byte may turn out to be LDFR
Sampling(x) == ~x.wait /\ LET w == Word(x.maddr) IN MAC1(w) /\ MAC0(w) /\ NA0(w) /\ ~MAC2(w)

Init == /\ m = Start /\ t = 0 /\ np = 0 /\ tfirst = -1 /\ entries = 0 /\ eff = 0 /\ lit = 0 /\ dropped = 0 /\ sched = <<>> /\ watch = FALSE /\ excused = 0 /\ conts = 0
Edge == /\ m.st = "Running" /\ t < Limit
        /\ m' = EdgeF(m) /\ t' = t + 1
        /\ entries' = entries + (IF m'.maddr = 16 /\ m.maddr # 16 THEN 1 ELSE 0)
        /\ dropped' = dropped + (IF Sampling(m) /\ m.pei /\ ~IEnow([m EXCEPT !.regs = EdgeF(m).regs]) /\ ~EdgeF(m).pei THEN 1 ELSE 0)
        \* a press made while enabled is excused if the PROGRAM clears IE (or the enable bit) before the next sampling point
        /\ LET gone == watch /\ ~EdgeF(m).pei
               cleared == watch /\ ~gone /\ ~IEnow(EdgeF(m))
           IN /\ watch' = (watch /\ ~gone /\ ~cleared)
              /\ excused' = excused + (IF cleared THEN 1 ELSE 0)
        /\ UNCHANGED <<np, tfirst, eff, lit, sched, conts>>
\* the key may also be pressed while the machine is paused by a STOP that the continue key will resume
Press == /\ (m.st = "Running" \/ (m.st = "Stopped" /\ conts < MaxCont)) /\ np < MaxPress
         /\ np = 1 => t - tfirst <= Window /\ t > tfirst
         /\ m' = KeyIntF(m) /\ np' = np + 1
         /\ tfirst' = IF np = 0 THEN t ELSE tfirst
         /\ eff' = eff + (IF KeyEdgeEnabled(m) /\ ~m.pei THEN 1 ELSE 0)
         /\ lit' = lit + (IF KeyEdgeEnabled(m) /\ IEnow(m) /\ ~m.pei /\ ~InWindowInsn(m) THEN 1 ELSE 0)
         /\ sched' = Append(sched, t)
         /\ watch' = (watch \/ (KeyEdgeEnabled(m) /\ IEnow(m) /\ ~m.pei /\ ~InWindowInsn(m)))
         /\ UNCHANGED <<t, entries, dropped, excused, conts>>
Cont == /\ m.st = "Stopped" /\ conts < MaxCont
        /\ m' = ContinueF(m) /\ conts' = conts + 1 /\ sched' = Append(sched, -1 - t)     \* negative entry: continue key before edge t
        /\ UNCHANGED <<t, np, tfirst, entries, eff, lit, dropped, watch, excused>>
Next == Edge \/ Press \/ Cont

\* ---- properties -----------------------------------------------------------------------------
IntWordOf(a) == a % 2 = 1 /\ MAC3(Word(a - 1))        \* the "int:" sibling of a fetch word
\* the routine is entered only between two instructions: from an "int:" word that follows a sampling point
EntryOnlyAtBoundary == m.maddr = 16 /\ m.wait = FALSE => TRUE
EntryStep == [][m'.maddr = 16 /\ m.maddr # 16 => IntWordOf(m.maddr)]_vars
\* never more entries than effective presses; a press with the enable bit clear never enters
NoSpurious == entries + dropped <= eff /\ (eff = 0 => entries = 0)
\* at the end: every literal press was served exactly once, nothing was served twice
Stopped == m.st = "Stopped" /\ conts = MaxCont          \* the final stop
AtEnd ==
  Stopped =>
    /\ entries + dropped + B2N(m.pei) = eff          \* each effective press is consumed exactly once (entered, sampled with IE clear) or still pending
    /\ lit - excused - B2N(watch) <= entries          \* presses made while enabled are all entered unless the program itself disabled interrupts first ...
    /\ m.ram[CounterCell] = entries                   \* ... and each entry ran the routine exactly once and returned
\* the run always reaches STOP (an interrupt never derails the program)
Ends == t >= Limit => FALSE
NoError == m.st # "ErrorStopped"

\* ---- transparency: compared with the uninterrupted run (pass 1) ----------------------------------
LiveRam(x) == [i \in 0..239 |-> IF i = CounterCell \/ (i >= 192 /\ i < x.regs[5]) THEN 0 ELSE x.ram[i]]
Final(x) == [regs |-> [j \in 1..6 |-> x.regs[j - 1]], outr |-> SeqOf(x.outr, 2), ram |-> SeqOf(LiveRam(x), 240), t |-> 0]
Ref == IF MaxPress = 0 THEN [regs |-> <<>>] ELSE JsonDeserialize(IOEnv.REF)
Transparent == Stopped /\ MaxPress > 0 =>
                 /\ Final(m).regs = Ref.regs /\ Final(m).outr = Ref.outr /\ Final(m).ram = Ref.ram

Emit == Stopped =>
          PrintT(<<"REPLAY", ToJson([sched |-> sched, entries |-> entries, t |-> t, final |-> [Final(m) EXCEPT !.t = t],
                                     s |-> ProjNoRam(m)])>>)
=====================================================================
