--------------------------- MODULE MC_Runner ---------------------------
(* C12: every run configuration of a bounded family is executed on the
   specification; the final machine, the cycle count, the outcome of every
   expectation set and the exit status are printed for the harness, which runs
   the real RunnerConfig::run / RunExpectations::verify and the real CLI.       *)
EXTENDS Runner, TLC, Json, FiniteSets, Sequences

CONSTANT Tier
VARIABLES m, i, fin, cf
vars == <<m, i, fin, cf>>

\* programs as byte images (given to the real tool as `.DB` lines, so no instruction encoder is involved)
\* 1: spin forever writing a counter to FF:  l: INC R0; ST (0xFF),R0; JR l
\* 2: count to 3 then STOP, FE = 3:        LD R0,3; ST (0xFE),R0; STOP
\* 3: run into opcode 0x00 after a NOP
\* 4: interrupt-to-STOP: JR main; isr: ST (0xFE),R1... : isr writes 0x5A to FE and STOPs; main enables and spins
\* 5: copies input FC to output FF and MISR to FE, forever
\* 6: copies the board's input port (0xF0) to FF and its status register (0xF1) to FE, forever
Images == << <<68, 240, 31, 255, 32, 250>>,
             <<251, 3, 16, 240, 31, 254, 1>>,
             <<2, 0, 2>>,
             <<32, 5, 251, 90, 31, 254, 1, 251, 239, 64, 251, 1, 31, 249, 8, 32, 254>>,
             <<255, 252, 16, 240, 31, 255, 255, 249, 17, 241, 31, 254, 32, 242>>,
             <<255, 240, 16, 240, 31, 255, 255, 241, 17, 241, 31, 254, 32, 242>> >>
Budgets == IF Tier = "quick" THEN {0, 1, 2, 9, 40} ELSE {0, 1, 2, 3, 9, 25, 40, 90}
Cand(N) == {0, 1, 2, 7, 30, N - 1, N, N + 5} \cap (0..200)
IntSets(N) == IF Tier = "quick" THEN {{}, {0}, {7}, {0, 2}, {1, 7}, {N - 1} \cap (0..200), {N} \cap (0..200), {2, 7, N + 5}, {7, 30}, {0, 30, 31}, {30}}
              ELSE {S \in SUBSET Cand(N) : Cardinality(S) <= 2} \cup {Cand(N)}
ResetSets(N) == IF Tier = "quick" THEN {{}, {0}, {7}, {2, 7}, {N - 1} \cap (0..200), {N}, {30}}
                ELSE {S \in SUBSET ({0, 2, 7, N - 1, N} \cap (0..200)) : Cardinality(S) <= 2}
Inputs == {<<0, 0, 0, 0>>, <<200, 1, 2, 255>>}
\* board configurations given on the command line (voltages in millivolts)
Boards == { [di1 |-> 0, temp |-> 0, j1 |-> FALSE, j2 |-> FALSE, ai1 |-> 0, ai2 |-> 0, uio1 |-> FALSE, uio2 |-> FALSE, uio3 |-> FALSE],
            [di1 |-> 171, temp |-> 2500, j1 |-> TRUE, j2 |-> FALSE, ai1 |-> 1, ai2 |-> 5000, uio1 |-> TRUE, uio2 |-> FALSE, uio3 |-> TRUE],
            [di1 |-> 255, temp |-> 0, j1 |-> FALSE, j2 |-> TRUE, ai1 |-> 4999, ai2 |-> 0, uio1 |-> FALSE, uio2 |-> TRUE, uio3 |-> FALSE] }

\* board configurations other than the default only with the program that looks at the board (6), two budgets, small schedules
ConfigsOf ==
  UNION { { [p |-> p, n |-> n, ints |-> is, resets |-> rs, inr |-> inp, bd |-> b] :
              p \in 1..Len(Images), is \in IntSets(n), rs \in ResetSets(n), inp \in Inputs,
              b \in { x \in Boards : x.di1 = 0 } } : n \in Budgets }
  \cup UNION { { [p |-> 6, n |-> n, ints |-> is, resets |-> rs, inr |-> inp, bd |-> b] :
              is \in {{}, {0}, {7}}, rs \in {{}, {2}}, inp \in Inputs, b \in { x \in Boards : x.di1 # 0 } } : n \in {9, 40} }

\* long runs: budgets beyond 2^16 cycles with events scheduled around 255/256 and 65535/65536 (spinning programs), and budgets near the
\* largest 32-bit number for programs that halt by themselves
DefaultBoard == CHOOSE x \in Boards : x.di1 = 0
LongN == IF Tier = "quick" THEN 3000 ELSE 66000
LongConfigs ==
  { [p |-> p, n |-> LongN, ints |-> is, resets |-> rs, inr |-> <<200, 1, 2, 255>>, bd |-> DefaultBoard] :
      p \in (IF Tier = "quick" THEN {1, 5} ELSE {1, 4, 5}),
      is \in (IF Tier = "quick" THEN {{255, LongN - 464}} ELSE {{}, {255, 65536}, {65535}, {256, 65999}}),
      rs \in (IF Tier = "quick" THEN {{256, LongN - 463}} ELSE {{}, {256, 65537}, {65535}}) }
  \cup { [p |-> p, n |-> n, ints |-> is, resets |-> {}, inr |-> <<0, 0, 0, 0>>, bd |-> DefaultBoard] :
      p \in {2, 3}, n \in {300, 65536, 2147483647}, is \in {{}, {7}} }
AllConfigs == ConfigsOf \cup LongConfigs

MC(c) == [inr |-> [k \in 0..3 |-> c.inr[k + 1]], di1 |-> c.bd.di1, temp |-> c.bd.temp, j1 |-> c.bd.j1, j2 |-> c.bd.j2,
          ai1 |-> c.bd.ai1, ai2 |-> c.bd.ai2, uio1 |-> c.bd.uio1, uio2 |-> c.bd.uio2, uio3 |-> c.bd.uio3]
\* the machine is built in a first step (so that TLC's workers share the construction)
Init == /\ cf \in AllConfigs /\ m = 0 /\ i = -1 /\ fin = FALSE
Next == \/ /\ i = -1
           /\ m' = RunnerStart(MC(cf), Images[cf.p], 16, -1)
           /\ i' = 0 /\ fin' = (cf.n = 0) /\ cf' = cf
        \/ /\ i >= 0 /\ ~fin
           /\ m' = RunnerCycle(m, i, cf.ints, cf.resets)
           /\ i' = i + 1
           /\ fin' = (m'.st # "Running" \/ i' = cf.n)
           /\ cf' = cf

\* the reported count is the number of edges issued; the run stops after N cycles or right after the halting cycle
CyclesOk == (fin /\ i >= 0) =>
              /\ i <= cf.n
              /\ i < cf.n => m.st # "Running"
              /\ i = 0 => cf.n = 0
Exps == { [st |-> s, fe |-> fe, ff |-> ff] : s \in {"none", "Running", "Stopped", "ErrorStopped"},
                                               fe \in {-1, 0, 3, 90}, ff \in {-1, 0, 1, 200} }
VerifyConsistent == fin => \A e \in Exps : VerifyOk(e, m) <=> VerifyError(e, m) = "ok"
ExpSeq == [k \in 1..64 |-> [st |-> <<"none", "Running", "Stopped", "ErrorStopped">>[((k - 1) \div 16) + 1],
                             fe |-> <<-1, 0, 3, 90>>[(((k - 1) \div 4) % 4) + 1],
                             ff |-> <<-1, 0, 1, 200>>[((k - 1) % 4) + 1]]]
Code(e, x) == LET r == VerifyError(e, x) IN CASE r = "ok" -> 0 [] r = "state" -> 1 [] r = "fe" -> 2 [] r = "ff" -> 3
ASSUME PrintT(<<"REPLAY", ToJson([kind |-> "exps", exps |-> ExpSeq])>>)
SetSeq(S) == LET RECURSIVE F(_) F(T) == IF T = {} THEN <<>> ELSE LET x == CHOOSE y \in T : \A z \in T : y <= z IN <<x>> \o F(T \ {x}) IN F(S)
Emit == fin => PrintT(<<"REPLAY", ToJson([p |-> cf.p, image |-> Images[cf.p], n |-> cf.n, ints |-> SetSeq(cf.ints), resets |-> SetSeq(cf.resets),
                                          inr |-> cf.inr, bd |-> cf.bd, cycles |-> i, s |-> ProjNoRam(m),
                                          fe |-> m.outr[0], ff |-> m.outr[1], st |-> m.st,
                                          ver |-> [k \in 1..64 |-> Code(ExpSeq[k], m)]])>>)
=====================================================================
