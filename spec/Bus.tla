----------------------------- MODULE Bus -----------------------------
(* The bus of the Minirechner 2a (emulator-2a-lib/src/machine/bus.rs).

   The operators work on any record that has the bus fields
     ram : [0..239 -> byte], inr : [0..3 -> byte], outr : [0..1 -> byte],
     micr, misr, ucr, usr, usend, urecv : byte,
     ten : BOOLEAN, td1, td2, td3 : Nat (interrupt timer), bd : board
   so the same definitions serve the stand-alone Bus and the machine record.

   address   write                               read
   00-EF     RAM                                 RAM
   F0        board output port 1 (DAC1, fan)     board input port
   F1        board output port 2 (DAC2)          board status DASR
   F2        UIO out / UIO direction / int ctrl  fan period
   F3        clear board interrupt flip-flop     board interrupt status DAISR
   F4-F8     nothing                             0
   F9        MICR (6 bits)                       MISR
   FA        UART send byte                      UART receive byte
   FB        UCR (5 upper bits)                  USR
   FC        timer divider 3, low byte           input register FC
   FD        timer control / divider 3 high      input register FD
   FE, FF    output registers                    input registers FE, FF      *)
EXTENDS Board

RamTop == 239   \* 0xEF

BusInit == [ram |-> [i \in 0..239 |-> 0], inr |-> [i \in 0..3 |-> 0], outr |-> [i \in 0..1 |-> 0],
            micr |-> 0, misr |-> 0, ucr |-> 0, usr |-> 0, usend |-> 0, urecv |-> 0,
            ten |-> FALSE, td1 |-> 0, td2 |-> 0, td3 |-> 0, bd |-> BoardInit]

Div1Table(sel) == CASE sel = 0 -> 1 [] sel = 1 -> 16 [] sel = 2 -> 256 [] sel = 3 -> 4096

BusWrite(b, a, v) ==
  CASE a <= 239 -> [b EXCEPT !.ram[a] = v]
    [] a = 240 -> [b EXCEPT !.bd = SetDigitalOutput1(@, v)]
    [] a = 241 -> [b EXCEPT !.bd = SetDigitalOutput2(@, v)]
    [] a = 242 -> (CASE v \div 64 = 0 -> [b EXCEPT !.bd = SetUor(@, v)]
                     [] v \div 64 = 1 -> b
                     [] v \div 64 = 2 -> [b EXCEPT !.bd = SetUdr(@, v)]
                     [] v \div 64 = 3 -> [b EXCEPT !.bd = SetIcr(@, v)])
    [] a = 243 -> [b EXCEPT !.bd = DeleteIntFf(@)]
    [] a \in 244..248 -> b
    [] a = 249 -> [b EXCEPT !.micr = v % 64]
    [] a = 250 -> [b EXCEPT !.usend = v]
    [] a = 251 -> [b EXCEPT !.ucr = v - (v % 8)]
    [] a = 252 -> [b EXCEPT !.td3 = (@ - (@ % 256)) + v]      \* (div3 & 0xFF00) + v; div3 < 65536
    [] a = 253 -> IF v >= 128
                  THEN \* the code stores the div1 selection into div2 (overwriting the
                       \* div2 selection made one line earlier); modelled as it is
                       [b EXCEPT !.ten = Bit(v, 4), !.td2 = Div1Table(v % 4)]
                  ELSE [b EXCEPT !.td3 = ((v % 128) * 128) + (@ % 128)]
    [] a = 254 -> [b EXCEPT !.outr[0] = v]
    [] a = 255 -> [b EXCEPT !.outr[1] = v]

BusRead(b, a) ==
  CASE a <= 239 -> b.ram[a]
    [] a = 240 -> b.bd.di1
    [] a = 241 -> b.bd.dasr
    [] a = 242 -> FanPeriod(b.bd)
    [] a = 243 -> b.bd.daisr
    [] a \in 244..248 -> 0
    [] a = 249 -> b.misr
    [] a = 250 -> b.urecv
    [] a = 251 -> b.usr
    [] a >= 252 -> b.inr[a - 252]

\* external inputs
SetInput(b, k, v) == [b EXCEPT !.inr[k] = v]     \* k = 0..3 for FC..FF

\* resets
BusCpuReset(b) == [b EXCEPT !.outr = [i \in 0..1 |-> 0], !.micr = 0, !.ucr = 0]
BusMasterReset(b) ==
  LET b1 == BusCpuReset(b) IN
  [b1 EXCEPT !.inr = [i \in 0..3 |-> 0], !.ten = FALSE, !.td1 = 0, !.td2 = 0, !.td3 = 0,
             !.bd = BoardMasterReset(@)]
ResetRam(b) == [b EXCEPT !.ram = [i \in 0..239 |-> 0]]

KeyEdgeEnabled(b) == b.micr % 2 = 1

BusTypeOK(b) ==
  /\ \A i \in 0..239 : b.ram[i] \in Byte
  /\ \A i \in 0..3 : b.inr[i] \in Byte
  /\ \A i \in 0..1 : b.outr[i] \in Byte
  /\ b.micr \in 0..63 /\ b.misr \in Byte /\ b.ucr \in Byte /\ b.ucr % 8 = 0 /\ b.usr \in Byte
  /\ b.usend \in Byte /\ b.urecv \in Byte
  /\ b.ten \in BOOLEAN /\ b.td1 \in Nat /\ b.td2 \in {0, 1, 16, 256, 4096} /\ b.td3 \in 0..65535
  /\ BoardTypeOK(b.bd)
=====================================================================
