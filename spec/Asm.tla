------------------------------ MODULE Asm ------------------------------
(* The reference encoding of the assembler (C02): what the translator
   (emulator-2a-lib/src/compiler.rs) has to produce for a parsed program.

   Assemble(ast) = [lines |-> <<bytes of line 1, bytes of line 2, ...>>, ss, ps]
   where ast is the sequence of line nodes of Mrasm.tla.  The image is the
   concatenation of the lines from address 0:
     - opcode and addressing-mode bits per the instruction table (below),
       constants and absolute addresses as following bytes;
     - .ORG a (a >= current address) and .BYTE n are zero fill, .DB bytes,
       .DW big-endian words;  .EQU / *STACKSIZE / *PROGRAMSIZE produce no bytes;
     - a label names the address of the byte that follows its definition, an
       .EQU name its constant; references are case-insensitive;
     - relative jumps carry  target - (address of the next instruction)  mod 256.
   Not defined here (no reference exists): backward .ORG, images beyond the
   address space, duplicate definitions.                                        *)
EXTENDS Mrasm

\* ---- operands ----------------------------------------------------------------------------
\* addressing mode bits and register bits of a source / destination operand
Mode(op) == CASE op.k = "r" -> 0 [] op.k = "mr" -> 1 [] op.k \in {"di", "c"} -> 2 [] op.k \in {"ddi", "mc"} -> 3
RegOf(op) == IF op.k \in {"c", "mc"} THEN 3 ELSE op.r           \* constants / absolute addresses go through (PC+) / ((PC+))
HasExtra(op) == op.k \in {"c", "mc"}
OpSize(op) == IF HasExtra(op) THEN 1 ELSE 0

\* ---- sizes (pass 1) -----------------------------------------------------------------------
InsSize(n, addr) ==
  LET m == n.m  ops == n.ops IN
  CASE m = DORG -> IF ops[1].n > addr THEN ops[1].n - addr ELSE 0
    [] m = DBYTE -> ops[1].n
    [] m = DDB -> Len(ops)
    [] m = DDW -> 2 * Len(ops)
    [] m \in {DEQU, DSTACK, DPROG} -> 0
    [] m \in NoOp \cup Reg1 \cup Reg2 -> 1
    [] m = M_DEC -> 1 + OpSize(ops[1])
    [] m \in {M_LDSP, M_LDFR} -> 2 + OpSize(ops[1])
    [] m \in DstSrc \cup {MLD, MST} -> 2 + OpSize(ops[1]) + OpSize(ops[2])
    [] m = M_JMP -> 3
    [] m \in Jump -> 2
NodeSize(n, addr) == IF n.t = "ins" THEN InsSize(n, addr) ELSE 0

\* address of every line (address of its first byte) and the address after the last line
RECURSIVE Addrs(_, _, _, _)
Addrs(ast, k, addr, acc) == IF k > Len(ast) THEN Append(acc, addr)
                            ELSE Addrs(ast, k + 1, addr + NodeSize(ast[k], addr), Append(acc, addr))
AddrOf(ast) == Addrs(ast, 1, 0, <<>>)

\* the symbol table: lower-case name -> value
Symbols(ast) ==
  LET a == AddrOf(ast) IN
  { <<Lower(ast[k].label), a[k] % 256>> : k \in {j \in 1..Len(ast) : ast[j].t = "label"} }
  \cup { <<Lower(ast[k].ops[1].l), ast[k].ops[2].n>> : k \in {j \in 1..Len(ast) : ast[j].t = "ins" /\ ast[j].m = DEQU} }
Lookup(sym, name) == (CHOOSE p \in sym : p[1] = Lower(name))[2]
ConstVal(sym, c) == IF "n" \in DOMAIN c THEN c.n ELSE Lookup(sym, c.l)
Extra(sym, op) == IF HasExtra(op) THEN <<ConstVal(sym, op.c)>> ELSE <<>>

\* ---- the instruction table (pass 2) -------------------------------------------------------------
RegBase(m) == CASE m = M_CLR -> 4 [] m = M_INC -> 68 [] m = M_NEG -> 52 [] m = M_COM -> 48 [] m = M_TST -> 72
                [] m = M_LSR -> 56 [] m = M_ASR -> 60 [] m = M_RRC -> 64 [] m = M_PUSH -> 16 [] m = M_POP -> 20
Reg2Base(m) == CASE m = M_ADD -> 96 [] m = M_ADC -> 112 [] m = M_SUB -> 128 [] m = M_MUL -> 176 [] m = M_DIV -> 192
                 [] m = M_AND -> 144 [] m = M_OR -> 160 [] m = M_XOR -> 208
NoOpCode(m) == CASE m = M_PUSHF -> 24 [] m = M_POPF -> 28 [] m = M_RET -> 23 [] m = M_RETI -> 44 [] m = M_STOP -> 1
                 [] m = M_NOP -> 2 [] m = M_EI -> 8 [] m = M_DI -> 12
SecondBase(m) == CASE m = M_MOV -> 16 [] m = M_CMP -> 32 [] m = M_BITT -> 48 [] m = M_BITS -> 80 [] m = M_BITC -> 96
                   [] m \in {MLD, MST} -> 16
JrCond(m) == CASE m = M_JR -> 0 [] m = M_JCS -> 1 [] m = M_JZS -> 2 [] m = M_JNS -> 3 [] m = M_JCC -> 5 [] m = M_JZC -> 6 [] m = M_JNC -> 7
\* two-operand form  dst, src :  1111 MS RS [src byte]  B2 MD RD [dst byte]
TwoOp(sym, base2, dst, src) ==
  <<240 + 4 * Mode(src) + RegOf(src)>> \o Extra(sym, src) \o <<base2 + 4 * Mode(dst) + RegOf(dst)>> \o Extra(sym, dst)
RECURSIVE Zeros(_)
Zeros(n) == IF n <= 0 THEN <<>> ELSE <<0>> \o Zeros(n - 1)
RECURSIVE Words(_)
Words(ops) == IF ops = <<>> THEN <<>> ELSE <<Head(ops).n \div 256, Head(ops).n % 256>> \o Words(Tail(ops))

Encode(sym, n, addr) ==
  LET m == n.m  ops == n.ops IN
  CASE m = DORG -> Zeros(ops[1].n - addr)
    [] m = DBYTE -> Zeros(ops[1].n)
    [] m = DDB -> [k \in 1..Len(ops) |-> ops[k].n]
    [] m = DDW -> Words(ops)
    [] m \in {DEQU, DSTACK, DPROG} -> <<>>
    [] m \in NoOp -> <<NoOpCode(m)>>
    [] m = M_LSL -> <<96 + 5 * ops[1].r>>                         \* LSL r = ADD r, r
    [] m = M_RLC -> <<112 + 5 * ops[1].r>>                        \* RLC r = ADC r, r
    [] m \in Reg1 -> <<RegBase(m) + ops[1].r>>
    [] m \in Reg2 -> <<Reg2Base(m) + 4 * ops[2].r + ops[1].r>>    \* BASE RS RD
    [] m = M_DEC -> <<80 + 4 * Mode(ops[1]) + RegOf(ops[1])>> \o Extra(sym, ops[1])
    [] m = M_LDSP -> <<240 + 4 * Mode(ops[1]) + RegOf(ops[1])>> \o Extra(sym, ops[1]) \o <<64>>
    [] m = M_LDFR -> <<240 + 4 * Mode(ops[1]) + RegOf(ops[1])>> \o Extra(sym, ops[1]) \o <<68>>
    [] m \in DstSrc \cup {MLD, MST} -> TwoOp(sym, SecondBase(m), ops[1], ops[2])
    [] m = M_JMP -> <<251, Lookup(sym, ops[1].l), 19>>            \* MOV PC, label
    [] m = M_CALL -> <<40, Lookup(sym, ops[1].l)>>
    [] m \in Jump -> <<32 + JrCond(m), (Lookup(sym, ops[1].l) + 256 - ((addr + 2) % 256)) % 256>>

\* last *STACKSIZE / *PROGRAMSIZE wins; defaults 16 and AUTO (-1)
RECURSIVE Setting(_, _, _)
Setting(ast, d, cur) == IF ast = <<>> THEN cur
                        ELSE Setting(Tail(ast), d, IF Head(ast).t = "ins" /\ Head(ast).m = d THEN Head(ast).ops[1].n ELSE cur)

\* backward .ORG / oversize images have no reference encoding
RECURSIVE BackwardOrg(_, _, _)
BackwardOrg(ast, k, a) == k <= Len(ast) /\ ( (ast[k].t = "ins" /\ ast[k].m = DORG /\ ast[k].ops[1].n < a[k]) \/ BackwardOrg(ast, k + 1, a) )
Defined(ast) == LET a == AddrOf(ast) IN ~BackwardOrg(ast, 1, a) /\ a[Len(a)] <= 240

Assemble(ast) ==
  LET a == AddrOf(ast)  sym == Symbols(ast) IN
  [lines |-> [k \in 1..Len(ast) |-> IF ast[k].t = "ins" THEN Encode(sym, ast[k], a[k]) ELSE <<>>],
   ss |-> Setting(ast, DSTACK, 16), ps |-> Setting(ast, DPROG, -1), size |-> a[Len(a)]]
=====================================================================
