------------------------------ MODULE Tui ------------------------------
(* (special results: a successor may be the record [special |-> "files" | "load" | "unspec"] where the
   specification leaves the outcome to the environment / open.)
   The interactive session (emulator-2a/src/tui): line editor with history and
   completion, notification, command language and its effect on the machine,
   session keys.  DESIGN.md Appendix D.

   Session state s:
     text : sequence of code points     cursor : 0..Len(text)
     hist : sequence of submitted lines  hidx  : -1 (none) or index into hist (0-based)
     comps : sequence of candidate texts (<<>> = no completion in progress), cidx : index (0-based)
     notif : "none" | "invalid" | "other"   (a notification is shown; the next key only dismisses it)
     quit : BOOLEAN   autorun : BOOLEAN   part : "RegisterBlock" | "Memory"
     mode : "Real" | "Assembly"          m : the machine (Micro.tla record)
   Keys: [k |-> "char", c |-> code point] | "enter" | "tab" | "backtab" | "left" | "right" | "up" |
         "down" | "home" | "end" | "backspace" | "delete" | [k |-> "ctrl", c |-> code point]
   Where the documentation is silent the specification is nondeterministic or
   "unspec" (see CmdParse and Complete).                                        *)
EXTENDS Machine, TLC

Blank == {32, 9}
Digit == 48..57
HexDigit == Digit \cup (65..70) \cup (97..102)
At(s, i) == IF i >= 1 /\ i <= Len(s) THEN s[i] ELSE -1
Sub(s, i, j) == LET e == IF j - 1 > Len(s) THEN Len(s) ELSE j - 1 IN IF i >= 1 /\ e >= i THEN SubSeq(s, i, e) ELSE <<>>   \* s[i .. j-1], clipped
Lo1(c) == IF c \in 65..90 THEN c + 32 ELSE c
Lower(w) == [k \in 1..Len(w) |-> Lo1(w[k])]
RECURSIVE SkipBl(_, _)
SkipBl(s, i) == IF At(s, i) \in Blank THEN SkipBl(s, i + 1) ELSE i
RECURSIVE RunOf(_, _, _)
RunOf(s, i, S) == IF At(s, i) \in S THEN RunOf(s, i + 1, S) ELSE i
HasAt(s, i, kw) == Lower(Sub(s, i, i + Len(kw))) = kw              \* keyword (lower case cps) at position i, any case

\* keywords as code points
KLOAD == <<108, 111, 97, 100>>   KSET == <<115, 101, 116>>   KUNSET == <<117, 110, 115, 101, 116>>
KSHOW == <<115, 104, 111, 119>>  KNEXT == <<110, 101, 120, 116>>  KQUIT == <<113, 117, 105, 116>>  KEXIT == <<101, 120, 105, 116>>
KREGISTER == <<114, 101, 103, 105, 115, 116, 101, 114>>  KMEMORY == <<109, 101, 109, 111, 114, 121>>
KIRG == <<105, 114, 103>>  KTEMP == <<116, 101, 109, 112>>  KI1 == <<105, 49>>  KI2 == <<105, 50>>
KJ1 == <<106, 49>>  KJ2 == <<106, 50>>  KUIO == <<117, 105, 111>>

Big == 10000000
DigVal(c) == IF c \in Digit THEN c - 48 ELSE IF c \in 65..70 THEN c - 55 ELSE c - 87
RECURSIVE ValOf(_, _, _)
ValOf(d, base, acc) == IF d = <<>> THEN acc
                       ELSE LET a == acc * base + DigVal(Head(d)) IN ValOf(Tail(d), base, IF a > Big THEN Big ELSE a)

Invalid == [k |-> "invalid"]
Unspec == [k |-> "unspec"]
Cmd(c) == [k |-> "cmd", c |-> c]
\* the rest of the line may only be blanks
EndOk(s, i) == SkipBl(s, i) > Len(s)

\* byte value: decimal, 0x hex, 0b binary; above 255 => invalid (never truncated)
ByteAt(s, i) ==   \* returns [k |-> "ok", v, i] / "invalid" / "unspec"
  IF At(s, i) = 48 /\ At(s, i + 1) \in {88, 66} THEN [k |-> "unspec"]
  ELSE IF At(s, i) = 48 /\ At(s, i + 1) = 120 THEN
         LET e == RunOf(s, i + 2, HexDigit) IN
         IF e = i + 2 THEN (IF EndOk(s, i + 1) THEN [k |-> "invalid"] ELSE [k |-> "invalid"])
         ELSE IF ValOf(Sub(s, i + 2, e), 16, 0) > 255 THEN [k |-> "invalid"] ELSE [k |-> "ok", v |-> ValOf(Sub(s, i + 2, e), 16, 0), i |-> e]
  ELSE IF At(s, i) = 48 /\ At(s, i + 1) = 98 THEN
         LET e == RunOf(s, i + 2, {48, 49}) IN
         IF e = i + 2 THEN [k |-> "invalid"]
         ELSE IF ValOf(Sub(s, i + 2, e), 2, 0) > 255 THEN [k |-> "invalid"] ELSE [k |-> "ok", v |-> ValOf(Sub(s, i + 2, e), 2, 0), i |-> e]
  ELSE LET e == RunOf(s, i, Digit) IN
       IF e = i THEN [k |-> "invalid"]
       ELSE IF ValOf(Sub(s, i, e), 10, 0) > 255 THEN [k |-> "invalid"] ELSE [k |-> "ok", v |-> ValOf(Sub(s, i, e), 10, 0), i |-> e]

\* voltage: digits[.digits] with at most three decimals = millivolts; anything else that starts like a number is unspecified
RECURSIVE Pow10(_)
Pow10(n) == IF n = 0 THEN 1 ELSE 10 * Pow10(n - 1)
VoltAt(s, i) ==
  LET e == RunOf(s, i, Digit) IN
  IF e = i THEN (IF At(s, i) \in {46, 43, 45, 105, 73, 110, 78} THEN [k |-> "unspec"] ELSE [k |-> "invalid"])
  ELSE IF At(s, e) = 46 THEN
         LET f == RunOf(s, e + 1, Digit)  nd == f - (e + 1) IN
         IF nd = 0 \/ nd > 3 \/ At(s, f) \in {101, 69} THEN [k |-> "unspec"]
         ELSE IF e - i > 6 THEN [k |-> "unspec"]
         ELSE [k |-> "ok", v |-> ValOf(Sub(s, i, e), 10, 0) * 1000 + ValOf(Sub(s, e + 1, f), 10, 0) * Pow10(3 - nd), i |-> f]
  ELSE IF At(s, e) \in {101, 69} \/ e - i > 6 THEN [k |-> "unspec"]
  ELSE [k |-> "ok", v |-> ValOf(Sub(s, i, e), 10, 0) * 1000, i |-> e]

\* "=" with optional blanks around it; returns the position after it or 0
EqAt(s, i) == LET j == SkipBl(s, i) IN IF At(s, j) = 61 THEN SkipBl(s, j + 1) ELSE 0

Finish(s, r, c) == IF r.k = "unspec" THEN Unspec ELSE IF r.k # "ok" THEN Invalid ELSE IF EndOk(s, r.i) THEN Cmd(c) ELSE Invalid

InputRegAt(s, i) ==   \* FC FD FE FF -> 0..3, else -1
  IF Lo1(At(s, i)) = 102 /\ Lo1(At(s, i + 1)) \in 99..102 THEN Lo1(At(s, i + 1)) - 99 ELSE -1

\* after "set" + blanks at position i
SetTail(s, i) ==
  IF InputRegAt(s, i) >= 0 THEN
       LET q == EqAt(s, i + 2) IN IF q = 0 THEN Invalid ELSE LET r == ByteAt(s, q) IN Finish(s, r, [op |-> "set_input", k |-> InputRegAt(s, i), v |-> IF r.k = "ok" THEN r.v ELSE 0])
  ELSE IF HasAt(s, i, KIRG) THEN
       LET q == EqAt(s, i + 3) IN IF q = 0 THEN Invalid ELSE LET r == ByteAt(s, q) IN Finish(s, r, [op |-> "set_di1", v |-> IF r.k = "ok" THEN r.v ELSE 0])
  ELSE IF HasAt(s, i, KTEMP) THEN
       LET q == EqAt(s, i + 4) IN IF q = 0 THEN Invalid ELSE LET r == VoltAt(s, q) IN Finish(s, r, [op |-> "set_temp", x |-> IF r.k = "ok" THEN r.v ELSE 0])
  ELSE IF HasAt(s, i, KI1) THEN
       LET q == EqAt(s, i + 2) IN IF q = 0 THEN Invalid ELSE LET r == VoltAt(s, q) IN Finish(s, r, [op |-> "set_ai1", x |-> IF r.k = "ok" THEN r.v ELSE 0])
  ELSE IF HasAt(s, i, KI2) THEN
       LET q == EqAt(s, i + 2) IN IF q = 0 THEN Invalid ELSE LET r == VoltAt(s, q) IN Finish(s, r, [op |-> "set_ai2", x |-> IF r.k = "ok" THEN r.v ELSE 0])
  ELSE Invalid
\* after "set" / "unset" + blanks: J1 J2 UIO1 UIO2 UIO3
PinTail(s, i, val) ==
  IF HasAt(s, i, KJ1) THEN (IF EndOk(s, i + 2) THEN Cmd([op |-> "set_j1", v |-> val]) ELSE Invalid)
  ELSE IF HasAt(s, i, KJ2) THEN (IF EndOk(s, i + 2) THEN Cmd([op |-> "set_j2", v |-> val]) ELSE Invalid)
  ELSE IF HasAt(s, i, KUIO) /\ At(s, i + 3) \in 49..51 THEN (IF EndOk(s, i + 4) THEN Cmd([op |-> "set_uio", k |-> At(s, i + 3) - 48, v |-> val]) ELSE Invalid)
  ELSE Invalid

CmdParse(line) ==
  LET i == SkipBl(line, 1) IN
  IF HasAt(line, i, KLOAD) /\ At(line, i + 4) \in Blank THEN Cmd([op |-> "load", path |-> Sub(line, SkipBl(line, i + 4), Len(line) + 1)])
  ELSE IF HasAt(line, i, KUNSET) /\ At(line, i + 5) \in Blank THEN PinTail(line, SkipBl(line, i + 5), FALSE)
  ELSE IF HasAt(line, i, KSET) /\ At(line, i + 3) \in Blank THEN
         LET j == SkipBl(line, i + 3)  p == PinTail(line, j, TRUE) IN IF p.k = "cmd" THEN p ELSE SetTail(line, j)
  ELSE IF InputRegAt(line, i) >= 0 THEN SetTail(line, i)                                        \* "FC = v" without "set"
  ELSE IF HasAt(line, i, KSHOW) /\ At(line, i + 4) \in Blank THEN
         LET j == SkipBl(line, i + 4) IN
         IF HasAt(line, j, KREGISTER) /\ EndOk(line, j + 8) THEN Cmd([op |-> "show", part |-> "RegisterBlock"])
         ELSE IF HasAt(line, j, KMEMORY) /\ EndOk(line, j + 6) THEN Cmd([op |-> "show", part |-> "Memory"])
         ELSE Invalid
  ELSE IF HasAt(line, i, KNEXT) THEN
         IF EndOk(line, i + 4) THEN Cmd([op |-> "next", n |-> 1])
         ELSE IF At(line, i + 4) \in Blank THEN
                LET j == SkipBl(line, i + 4)  e == RunOf(line, j, Digit) IN
                IF e = j \/ ~EndOk(line, e) THEN Invalid
                ELSE IF e - j > 5 THEN Unspec ELSE Cmd([op |-> "next", n |-> ValOf(Sub(line, j, e), 10, 0)])
         ELSE Invalid
  ELSE IF (HasAt(line, i, KQUIT) \/ HasAt(line, i, KEXIT)) /\ EndOk(line, i + 4) THEN Cmd([op |-> "quit"])
  ELSE Invalid

\* ---- the machine under the session ----------------------------------------------------------------
\* one clock key in the current step mode (assembly mode: the step of C11, bounded recursion)
RECURSIVE AsmWalk(_, _, _)
AsmWalk(x, lf, fuel) ==
  IF fuel = 0 \/ x.st # "Running" \/ (lf /\ IsInstructionDone(x)) \/ EdgeF(x) = x THEN x
  ELSE LET y == EdgeF(x) IN AsmWalk(y, lf \/ ~IsInstructionDone(y), fuel - 1)
ClockKey(x, mode) == IF mode = "Real" THEN EdgeF(x) ELSE AsmWalk(x, ~IsInstructionDone(x), 700)
RECURSIVE ClockKeys(_, _, _)
ClockKeys(x, mode, n) == IF n = 0 THEN x ELSE ClockKeys(ClockKey(x, mode), mode, n - 1)

\* ---- the editor -----------------------------------------------------------------------------------------
InsertAt(t, i, c) == Sub(t, 1, i + 1) \o <<c>> \o Sub(t, i + 1, Len(t) + 1)          \* i = cursor (0-based)
RemoveAt(t, i) == Sub(t, 1, i + 1) \o Sub(t, i + 2, Len(t) + 1)                        \* removes t[i+1]
SessionInit == [text |-> <<>>, cursor |-> 0, hist |-> <<>>, hidx |-> -1, comps |-> <<>>, cidx |-> 0,
                notif |-> "none", quit |-> FALSE, autorun |-> FALSE, part |-> "RegisterBlock", mode |-> "Real", m |-> MachineInit]
NoComps(s) == [s EXCEPT !.comps = <<>>, !.cidx = 0]

\* candidates offered by the first Tab / BackTab: the list the editor will cycle through, or <<>>;
\* "load <prefix>" completes file names (file system: taken from the log, marked here as "files")
FileCompletion(s) == Len(s.text) >= 5 /\ Sub(s.text, 1, 6) = KLOAD \o <<32>>
Candidates(s) ==
  LET t == s.text IN
  IF At(t, 1) = 108 THEN <<KLOAD \o <<32>>>>
  ELSE IF At(t, 1) = 115 THEN <<KSET \o <<32>>>>
  ELSE IF At(t, 1) = 70 /\ s.cursor > 1 /\ s.cursor <= 4 /\ At(t, 2) \in 67..70 THEN <<<<70, At(t, 2), 32, 61, 32>>>>
  ELSE <<>>

\* successor states of the editor for one editing key (a set: BackTab and file completion are nondeterministic)
EditKey(s, key) ==
  LET t == s.text  c == s.cursor  n == Len(s.hist) IN
  CASE key.k = "char" -> {NoComps([s EXCEPT !.text = InsertAt(t, c, key.c), !.cursor = c + 1])}
    [] key.k = "backspace" -> {NoComps(IF c > 0 THEN [s EXCEPT !.text = RemoveAt(t, c - 1), !.cursor = c - 1] ELSE s)}
    [] key.k = "delete" -> {NoComps(IF c < Len(t) THEN [s EXCEPT !.text = RemoveAt(t, c)] ELSE s)}
    [] key.k = "home" -> {NoComps([s EXCEPT !.cursor = 0])}
    [] key.k = "end" -> {NoComps([s EXCEPT !.cursor = Len(t)])}
    [] key.k = "left" -> {NoComps([s EXCEPT !.cursor = IF c > 0 THEN c - 1 ELSE 0])}
    [] key.k = "right" -> {NoComps([s EXCEPT !.cursor = IF c < Len(t) THEN c + 1 ELSE c])}
    [] key.k = "up" -> {NoComps(IF s.hidx > 0 THEN [s EXCEPT !.hidx = @ - 1, !.text = s.hist[s.hidx], !.cursor = Len(s.hist[s.hidx])]
                                ELSE IF s.hidx = -1 /\ n > 0 THEN [s EXCEPT !.hidx = n - 1, !.text = s.hist[n], !.cursor = Len(s.hist[n])]
                                ELSE s)}
    [] key.k = "down" -> {NoComps(IF s.hidx >= 0 /\ s.hidx < n - 1 THEN [s EXCEPT !.hidx = @ + 1, !.text = s.hist[s.hidx + 2], !.cursor = Len(s.hist[s.hidx + 2])]
                                  ELSE IF s.hidx >= 0 /\ s.hidx = n - 1 THEN [s EXCEPT !.hidx = -1, !.text = <<>>, !.cursor = 0]
                                  ELSE s)}
    [] key.k \in {"tab", "backtab"} ->
         IF s.comps # <<>> THEN
           \* cycle: Tab goes to the next candidate; which one BackTab selects is left open
           IF key.k = "tab" THEN LET j == (s.cidx + 1) % Len(s.comps) IN {[s EXCEPT !.cidx = j, !.text = s.comps[j + 1], !.cursor = Len(s.comps[j + 1])]}
           ELSE {[s EXCEPT !.cidx = j, !.text = s.comps[j + 1], !.cursor = Len(s.comps[j + 1])] : j \in 0..(Len(s.comps) - 1)}
         ELSE IF FileCompletion(s) THEN {[special |-> "files"]}
         ELSE LET cand == Candidates(s) IN
              IF cand = <<>> THEN {s}
              ELSE {[s EXCEPT !.comps = Append(cand, t), !.cidx = 0, !.text = cand[1], !.cursor = Len(cand[1])]}

\* Enter on a non-empty line: submit
Submit(s) ==
  LET line == s.text
      s1 == [s EXCEPT !.hist = Append(@, line), !.text = <<>>, !.cursor = 0, !.hidx = -1, !.comps = <<>>, !.cidx = 0]
      p == CmdParse(line) IN
  IF p.k = "unspec" THEN {[special |-> "unspec"]}
  ELSE IF p.k = "invalid" THEN {[s1 EXCEPT !.notif = "invalid"]}
  ELSE LET c == p.c IN
       CASE c.op = "quit" -> {[s1 EXCEPT !.quit = TRUE]}
         [] c.op = "show" -> {[s1 EXCEPT !.part = c.part]}
         [] c.op = "next" -> {[s1 EXCEPT !.m = ClockKeys(s1.m, s1.mode, c.n)]}
         [] c.op = "load" -> {[special |-> "load"]}                       \* depends on the file system: effect taken from the log
         [] OTHER -> {[s1 EXCEPT !.m = ApplyOp(s1.m, c)]}

\* one key of the session
Key(s, key) ==
  IF s.notif # "none" THEN {[s EXCEPT !.notif = "none"]}              \* any key only dismisses the notification
  ELSE IF key.k = "ctrl" THEN
    CASE key.c = 99 -> {[s EXCEPT !.quit = TRUE]}
      [] key.c = 97 -> {[s EXCEPT !.autorun = ~@]}
      [] key.c = 119 -> {[s EXCEPT !.mode = IF @ = "Real" THEN "Assembly" ELSE "Real"]}
      [] key.c = 101 -> {[s EXCEPT !.m = KeyIntF(@)]}
      [] key.c = 114 -> {[s EXCEPT !.m = CpuResetF(@)]}
      [] key.c = 108 -> {[s EXCEPT !.m = ContinueF(@)]}
      [] OTHER -> {s}
  ELSE IF key.k = "enter" THEN (IF s.text = <<>> THEN {[s EXCEPT !.m = ClockKey(@, s.mode)]} ELSE Submit(s))
  ELSE EditKey(s, key)

\* the editor invariant of C17: the cursor stays inside the text, indices stay in range
EditorOk(s) ==
  /\ s.cursor >= 0 /\ s.cursor <= Len(s.text)
  /\ s.hidx >= -1 /\ s.hidx < Len(s.hist)
  /\ (s.comps # <<>> => s.cidx >= 0 /\ s.cidx < Len(s.comps))
=====================================================================
