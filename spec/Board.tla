---------------------------- MODULE Board ----------------------------
(* The MR2DA2 extension board (emulator-2a-lib/src/machine/board.rs).

   A board is a record
     [di1, do1, do2 : byte;  temp, ai1, ai2 : millivolt (0..5000);
      ao1, ao2 : millivolt (= 10 * byte);  dasr, daisr, daicr : byte;
      fan : rpm;  ud1, ud2, ud3 : BOOLEAN (TRUE = output)]

   Voltages.  TLA+ has no floats; externally applied voltages are modelled on
   a 1 mV grid (the harness applies k/1000.0 as f32) plus integer codes for
   the values outside 0..5 V:
       x < 0      negative voltages;   NegInfV = -inf;   NaNV = not a number
       x > 5000   voltages above 5 V;  PosInfV = +inf
   For grid values the f32 comparison  k/1000.0 > b/100.0  is exactly
   k > 10*b (correct rounding; checked for all 5001 x 256 pairs in the harness
   self test), and the fan speed (4200 * (b/100) / 2.55) as usize is exactly
   (4200*b) \div 255 for all 256 bytes (same self test).                    *)
EXTENDS Bits

NaNV == -1000000
NegInfV == -2000000
PosInfV == 2000000

\* DASR bits
J2 == 128  J1 == 64  FAN == 32  CMP2 == 16  CMP1 == 8  UIO3 == 4  UIO2 == 2  UIO1 == 1
\* DAISR bits
IPEND == 8  IREQ == 4  IFF == 2  ISRC == 1
\* DAICR bits
ICR_IE == 32  ICR_EDGE == 16  ICR_FALLING == 8

BoardInit == [di1 |-> 0, do1 |-> 0, do2 |-> 0, temp |-> 0, ai1 |-> 0, ai2 |-> 0,
              ao1 |-> 0, ao2 |-> 0, dasr |-> 0, daisr |-> 0, daicr |-> 0, fan |-> 0,
              ud1 |-> FALSE, ud2 |-> FALSE, ud3 |-> FALSE]

\* stored voltage: clamped to 0..5 V, non-numbers as 0 V
Clamp(x) == IF x >= 0 /\ x <= 5000 THEN x ELSE IF x > 5000 THEN 5000 ELSE 0

\* interrupt source selected by DAICR bits 2..0:
\* 0 none, 1..3 UIO1..3, 4 COMP1, 5 COMP2, 6 J1, 7 tacho
Source(b) == b.daicr % 8
Falling(b) == Bit(b.daicr, 3)

\* A transition old -> new of interrupt source `src`: raises the interrupt
\* flip-flop and the SOURCE flag iff src is selected and the transition is the
\* configured edge.
EdgeEvent(b, src, old, new) ==
  IF Source(b) = src /\ ((old /\ ~new /\ Falling(b)) \/ (~old /\ new /\ ~Falling(b)))
  THEN [b EXCEPT !.daisr = @ | (ISRC + IFF)]
  ELSE b

Comp1Val(b) == b.ai1 > 10 * b.do1
Comp2Val(b) == (IF b.temp > b.ai2 THEN b.temp ELSE b.ai2) > 10 * b.do2
UpdateComp1(b) == LET nv == Comp1Val(b)
                      b1 == EdgeEvent(b, 4, Bit(b.dasr, 3), nv)
                  IN [b1 EXCEPT !.dasr = SetBits(@, CMP1, nv)]
UpdateComp2(b) == LET nv == Comp2Val(b)
                      b1 == EdgeEvent(b, 5, Bit(b.dasr, 4), nv)
                  IN [b1 EXCEPT !.dasr = SetBits(@, CMP2, nv)]

\* ---- external setters ------------------------------------------------
SetDigitalInput1(b, v) == [b EXCEPT !.di1 = v]
SetTemp(b, x) == UpdateComp2([b EXCEPT !.temp = Clamp(x)])
SetAnalogInput1(b, x) == UpdateComp1([b EXCEPT !.ai1 = Clamp(x)])
SetAnalogInput2(b, x) == UpdateComp2([b EXCEPT !.ai2 = Clamp(x)])
SetJumper1(b, p) == LET b1 == EdgeEvent(b, 6, Bit(b.dasr, 6), p)
                    IN [b1 EXCEPT !.dasr = SetBits(@, J1, p)]
SetJumper2(b, p) == [b EXCEPT !.dasr = SetBits(@, J2, p)]
UioDir(b, k) == CASE k = 1 -> b.ud1 [] k = 2 -> b.ud2 [] k = 3 -> b.ud3
UioMask(k) == CASE k = 1 -> UIO1 [] k = 2 -> UIO2 [] k = 3 -> UIO3
\* an externally applied level on pin k: ignored iff the pin is an output
SetUio(b, k, v) ==
  IF UioDir(b, k) THEN b
  ELSE LET b1 == EdgeEvent(b, k, (b.dasr & UioMask(k)) # 0, v)
       IN [b1 EXCEPT !.dasr = SetBits(@, UioMask(k), v)]

\* ---- port writes (through the bus) -------------------------------------
FanRpm(byte) == (4200 * byte) \div 255
SetDigitalOutput1(b, v) ==
  LET b1 == UpdateComp1([b EXCEPT !.do1 = v, !.ao1 = 10 * v])
  IN [b1 EXCEPT !.fan = FanRpm(v), !.dasr = @ | FAN]
SetDigitalOutput2(b, v) == UpdateComp2([b EXCEPT !.do2 = v, !.ao2 = 10 * v])
SetUor(b, byte) == [b EXCEPT !.dasr = (@ - (@ & 7)) + (byte % 8)]
SetUdr(b, byte) == [b EXCEPT !.ud1 = Bit(byte, 0), !.ud2 = Bit(byte, 1), !.ud3 = Bit(byte, 2)]
SetIcr(b, byte) == [b EXCEPT !.daisr = Clr8(@, IPEND + IREQ + IFF), !.daicr = byte % 64]
DeleteIntFf(b) == [b EXCEPT !.daisr = Clr8(@, IFF)]

\* ---- port reads ---------------------------------------------------------
\* documented law: period = 255 - 255 * V / 2.55 V with V = fan supply voltage
\* (= DAC1 output).  Implementation shaped: computed from the stored rpm.
FanPeriod(b) == 255 - ((255 * b.fan) \div 4200)
FanPeriodIdeal(byte) == 255 - byte

\* ---- reset ---------------------------------------------------------------
\* clears the board's outputs and configuration, never its physical inputs
\* (di1, temp, ai1, ai2, jumpers, UIO levels) nor the status registers
BoardMasterReset(b) == [b EXCEPT !.do1 = 0, !.do2 = 0, !.ao1 = 0, !.ao2 = 0, !.daicr = 0,
                                 !.fan = 0, !.ud1 = FALSE, !.ud2 = FALSE, !.ud3 = FALSE]

\* ---- the (currently unused) interrupt fetch ------------------------------
\* returns <<board', interrupt?>>; modelled for completeness, nothing in the
\* bus calls it today (Bus::take_edge_interrupt is a stub).
FetchInterrupt(b) ==
  IF ~Bit(b.daicr, 5) THEN <<b, FALSE>>
  ELSE LET b1 == IF Source(b) = 7 /\ b.fan > 0 THEN [b EXCEPT !.daisr = @ | (ISRC + IFF)] ELSE b
       IN IF Bit(b1.daicr, 4)
          THEN <<[b1 EXCEPT !.daisr = Clr8(@, ISRC)], Bit(b1.daisr, 0)>>
          ELSE <<b1, Bit(b1.daisr, 1)>>

BoardTypeOK(b) ==
  /\ b.di1 \in Byte /\ b.do1 \in Byte /\ b.do2 \in Byte
  /\ b.temp \in 0..5000 /\ b.ai1 \in 0..5000 /\ b.ai2 \in 0..5000
  /\ b.ao1 = 10 * b.do1 /\ b.ao2 = 10 * b.do2
  /\ b.dasr \in Byte /\ b.daisr \in 0..15 /\ b.daicr \in 0..63
  /\ b.fan \in 0..4200
  /\ b.ud1 \in BOOLEAN /\ b.ud2 \in BOOLEAN /\ b.ud3 \in BOOLEAN
=====================================================================
