--------------------------- MODULE Machine ---------------------------
(* Machine = RawMachine + step mode (emulator-2a-lib/src/machine/mod.rs).
   The step mode is kept next to the machine record (variable or field `mode`)
   by the users of this module; the operators below take it as an argument.  *)
EXTENDS Micro, Sequences

\* ---- assembly step, declaratively ---------------------------------------
(* One assembly-mode key = single edges until the next instruction boundary:
   phase "leave": while at a boundary and Running: edge;
   phase "finish": while not at a boundary and Running: edge.
   The loop is modelled as a small state machine so that model checking walks it
   with ordinary steps (no recursion): AsmPhase computes which phase applies. *)
AsmContinue(m, phase) ==
  \* returns the phase in which the next edge is issued, or "done"
  IF m.st # "Running" THEN "done"
  ELSE IF phase = "leave" /\ IsInstructionDone(m) THEN "leave"
  ELSE IF ~IsInstructionDone(m) THEN "finish"
  ELSE "done"

\* bounded iteration for trace validation / small checks: number of edges is
\* supplied by the caller (the trace logs it); RunEdges is a left fold.
RECURSIVE RunEdges(_, _)
RunEdges(m, n) == IF n = 0 THEN m ELSE RunEdges(EdgeF(m), n - 1)

\* ---- load ------------------------------------------------------------------
(* image: sequence of bytes (<= 240), ss \in {0,16,32,48,64,-1 (NOSET)},
   ps \in 0..255 (Size) | -1 (Auto) | -2 (NOSET)                            *)
LoadF(m, image, ss, ps) ==
  LET m1 == MasterResetF(m)
      m2 == [m1 EXCEPT !.ram = [i \in 0..239 |-> IF i < Len(image) THEN image[i + 1] ELSE 0]]
      m3 == IF ss >= 0 THEN [m2 EXCEPT !.ss = ss] ELSE m2
  IN IF ps >= 0 THEN [m3 EXCEPT !.ps = ps]
     ELSE IF ps = -1 THEN [m3 EXCEPT !.ps = Len(image)]
     ELSE m3

\* Machine::load_raw: master reset, then the bytes are copied over the RAM (the rest of the RAM and the limits are kept)
LoadRawF(m, image) ==
  LET m1 == MasterResetF(m) IN
  [m1 EXCEPT !.ram = [i \in 0..239 |-> IF i < Len(image) THEN image[i + 1] ELSE m1.ram[i]]]

\* configuration applied by Machine::new / new_with_program, in the code's order
ApplyConfigF(m, c) ==
  LET m1 == [m EXCEPT !.inr = [i \in 0..3 |-> c.inr[i]]]
      b1 == SetDigitalInput1(m1.bd, c.di1)
      b2 == SetTemp(b1, c.temp)
      b3 == SetJumper1(b2, c.j1)
      b4 == SetJumper2(b3, c.j2)
      b5 == SetAnalogInput1(b4, c.ai1)
      b6 == SetAnalogInput2(b5, c.ai2)
      b7 == SetUio(b6, 1, c.uio1)
      b8 == SetUio(b7, 2, c.uio2)
      b9 == SetUio(b8, 3, c.uio3)
  IN [m1 EXCEPT !.bd = b9]
DefaultConfig == [inr |-> [i \in 0..3 |-> 0], di1 |-> 0, temp |-> 0, j1 |-> FALSE, j2 |-> FALSE,
                  ai1 |-> 0, ai2 |-> 0, uio1 |-> FALSE, uio2 |-> FALSE, uio3 |-> FALSE]
NewF(c) == ApplyConfigF(MachineInit, c)
NewWithProgramF(c, image, ss, ps) == ApplyConfigF(LoadF(MachineInit, image, ss, ps), c)

\* ---- one public call as a function of an op record ---------------------------
(* Op records are what the harness's scenario interpreter executes:
   [op |-> "edge"], [op |-> "set_input", k |-> 0..3, v |-> byte],
   [op |-> "set_temp", x |-> voltage code], [op |-> "bus_write", a |-> addr, v |-> byte], ...
   Every op except "load" / "asm_step" / "init" is a single deterministic step.   *)
ApplyOp(m, o) ==
  CASE o.op = "edge" -> EdgeF(m)
    [] o.op = "key_int" -> KeyIntF(m)
    [] o.op = "continue" -> ContinueF(m)
    [] o.op = "cpu_reset" -> CpuResetF(m)
    [] o.op = "master_reset" -> MasterResetF(m)
    [] o.op = "set_input" -> SetInput(m, o.k, o.v)
    [] o.op = "set_di1" -> [m EXCEPT !.bd = SetDigitalInput1(@, o.v)]
    [] o.op = "set_temp" -> [m EXCEPT !.bd = SetTemp(@, o.x)]
    [] o.op = "set_ai1" -> [m EXCEPT !.bd = SetAnalogInput1(@, o.x)]
    [] o.op = "set_ai2" -> [m EXCEPT !.bd = SetAnalogInput2(@, o.x)]
    [] o.op = "set_j1" -> [m EXCEPT !.bd = SetJumper1(@, o.v)]
    [] o.op = "set_j2" -> [m EXCEPT !.bd = SetJumper2(@, o.v)]
    [] o.op = "set_uio" -> [m EXCEPT !.bd = SetUio(@, o.k, o.v)]
    [] o.op = "bus_write" -> BusWrite(m, o.a, o.v)
    [] o.op = "bus_read" -> m
    [] o.op = "set_limits" -> [m EXCEPT !.ss = o.ss, !.ps = o.ps]
    [] o.op = "mode" -> m
    [] o.op = "checkpoint" -> m
    [] o.op = "load" -> LoadF(m, o.image, o.ss, o.ps)

SimpleOps == {"edge", "key_int", "continue", "cpu_reset", "master_reset", "set_input", "set_di1", "set_temp",
              "set_ai1", "set_ai2", "set_j1", "set_j2", "set_uio", "bus_write", "bus_read", "set_limits",
              "mode", "checkpoint"}

RECURSIVE ApplyOps(_, _)
ApplyOps(m, ops) == IF ops = <<>> THEN m ELSE ApplyOps(ApplyOp(m, Head(ops)), Tail(ops))

\* ---- projections used when behaviours are handed to the harness ---------------
SeqOf(f, n) == [i \in 1..n |-> f[i - 1]]
\* checksum of the RAM: sum of (i+1) * ram[i] modulo 65521, as 16 chunks of 15 cells
\* (shallow recursion: TLC's evaluator is stack hungry)
RamSum(ram) ==
  LET Term(i) == (i + 1) * ram[i]
      Chunk(c) == LET b == 15 * c IN
        Term(b) + Term(b+1) + Term(b+2) + Term(b+3) + Term(b+4) + Term(b+5) + Term(b+6) + Term(b+7)
        + Term(b+8) + Term(b+9) + Term(b+10) + Term(b+11) + Term(b+12) + Term(b+13) + Term(b+14)
  IN (Chunk(0) + Chunk(1) + Chunk(2) + Chunk(3) + Chunk(4) + Chunk(5) + Chunk(6) + Chunk(7)
      + Chunk(8) + Chunk(9) + Chunk(10) + Chunk(11) + Chunk(12) + Chunk(13) + Chunk(14) + Chunk(15)) % 65521
\* everything except the RAM contents (RAM as checksum); JSON friendly
ProjNoRam(m) ==
  [maddr |-> m.maddr, ir |-> m.ir, regs |-> SeqOf(m.regs, 8), prw |-> m.prw, pfw |-> m.pfw,
   pei |-> m.pei, pli |-> m.pli, wait |-> m.wait, st |-> m.st,
   aout |-> m.aout, ac |-> m.ac, az |-> m.az, an |-> m.an, lbr |-> m.lbr, ss |-> m.ss, ps |-> m.ps,
   inr |-> SeqOf(m.inr, 4), outr |-> SeqOf(m.outr, 2),
   micr |-> m.micr, misr |-> m.misr, ucr |-> m.ucr, usr |-> m.usr, usend |-> m.usend, urecv |-> m.urecv,
   ten |-> m.ten, td1 |-> m.td1, td2 |-> m.td2, td3 |-> m.td3, bd |-> m.bd, ramsum |-> RamSum(m.ram)]
ProjFull(m) == [s |-> ProjNoRam(m), ram |-> SeqOf(m.ram, 240)]
=====================================================================
