--------------------------- MODULE Machine ---------------------------
(* Machine = RawMachine + step mode (emulator-2a-lib/src/machine/mod.rs).
   The step mode is kept next to the machine record (variable or field `mode`)
   by the users of this module; the operators below take it as an argument.  *)
EXTENDS Micro, Sequences

\* ---- assembly step, declaratively ---------------------------------------
(* One assembly-mode key = single edges until the next instruction boundary:
   phase "leave": while at a boundary and Running: edge;
   phase "finish": while not at a boundary and Running: edge.
   The loop is modelled as a small state machine so that model checking walks it
   with ordinary steps (no recursion): AsmPhase computes which phase applies. *)
AsmContinue(m, phase) ==
  \* returns the phase in which the next edge is issued, or "done"
  IF m.st # "Running" THEN "done"
  ELSE IF phase = "leave" /\ IsInstructionDone(m) THEN "leave"
  ELSE IF ~IsInstructionDone(m) THEN "finish"
  ELSE "done"

\* bounded iteration for trace validation / small checks: number of edges is
\* supplied by the caller (the trace logs it); RunEdges is a left fold.
RECURSIVE RunEdges(_, _)
RunEdges(m, n) == IF n = 0 THEN m ELSE RunEdges(EdgeF(m), n - 1)

\* ---- load ------------------------------------------------------------------
(* image: sequence of bytes (<= 240), ss \in {0,16,32,48,64,-1 (NOSET)},
   ps \in 0..255 (Size) | -1 (Auto) | -2 (NOSET)                            *)
LoadF(m, image, ss, ps) ==
  LET m1 == MasterResetF(m)
      m2 == [m1 EXCEPT !.ram = [i \in 0..239 |-> IF i < Len(image) THEN image[i + 1] ELSE 0]]
      m3 == IF ss >= 0 THEN [m2 EXCEPT !.ss = ss] ELSE m2
  IN IF ps >= 0 THEN [m3 EXCEPT !.ps = ps]
     ELSE IF ps = -1 THEN [m3 EXCEPT !.ps = Len(image)]
     ELSE m3

\* configuration applied by Machine::new / new_with_program, in the code's order
ApplyConfigF(m, c) ==
  LET m1 == [m EXCEPT !.inr = [i \in 0..3 |-> c.inr[i]]]
      b1 == SetDigitalInput1(m1.bd, c.di1)
      b2 == SetTemp(b1, c.temp)
      b3 == SetJumper1(b2, c.j1)
      b4 == SetJumper2(b3, c.j2)
      b5 == SetAnalogInput1(b4, c.ai1)
      b6 == SetAnalogInput2(b5, c.ai2)
      b7 == SetUio(b6, 1, c.uio1)
      b8 == SetUio(b7, 2, c.uio2)
      b9 == SetUio(b8, 3, c.uio3)
  IN [m1 EXCEPT !.bd = b9]
DefaultConfig == [inr |-> [i \in 0..3 |-> 0], di1 |-> 0, temp |-> 0, j1 |-> FALSE, j2 |-> FALSE,
                  ai1 |-> 0, ai2 |-> 0, uio1 |-> FALSE, uio2 |-> FALSE, uio3 |-> FALSE]
NewF(c) == ApplyConfigF(MachineInit, c)
NewWithProgramF(c, image, ss, ps) == ApplyConfigF(LoadF(MachineInit, image, ss, ps), c)
=====================================================================
