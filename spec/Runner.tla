----------------------------- MODULE Runner -----------------------------
(* The run loop (emulator-2a-lib/src/runner/mod.rs) and the verification of
   expectations; the command-line front end (emulator-2a/src/runner, args.rs).

   Run(cfg): create a machine with the program and configuration; for cycle
   i = 0, 1, ...: apply the key interrupt and / or the CPU reset scheduled for i
   (in that order), then one clock key; stop after N cycles or right after the
   first cycle that leaves the machine not Running.  cycles = edges issued.     *)
EXTENDS Machine

\* one cycle of the loop (the machine is in StepMode Real: one clock key = one edge)
RunnerCycle(m, i, ints, resets) ==
  LET m1 == IF i \in ints THEN KeyIntF(m) ELSE m
      m2 == IF i \in resets THEN CpuResetF(m1) ELSE m1
  IN EdgeF(m2)

RunnerStart(cfg, image, ss, ps) == NewWithProgramF(cfg, image, ss, ps)

\* expectations: record with fields st, fe, ff; the string "none" / -1 = not stated
VerifyOk(exp, m) ==
  /\ exp.st # "none" => exp.st = m.st
  /\ exp.fe >= 0 => exp.fe = m.outr[0]
  /\ exp.ff >= 0 => exp.ff = m.outr[1]
\* which mismatch the library reports (first of state, FE, FF)
VerifyError(exp, m) ==
  IF exp.st # "none" /\ exp.st # m.st THEN "state"
  ELSE IF exp.fe >= 0 /\ exp.fe # m.outr[0] THEN "fe"
  ELSE IF exp.ff >= 0 /\ exp.ff # m.outr[1] THEN "ff"
  ELSE "ok"

\* process exit status of `2a-emulator run ... [verify ...]` and `2a-emulator verify`
ExitStatus(readable, parses, verifyOk) == IF readable /\ parses /\ verifyOk THEN 0 ELSE 1

\* spelling of a byte in the three radices accepted on the command line
Digits == <<"0", "1", "2", "3", "4", "5", "6", "7", "8", "9", "a", "b", "c", "d", "e", "f">>
RECURSIVE InBase(_, _)
InBase(n, b) == IF n < b THEN Digits[n + 1] ELSE InBase(n \div b, b) \o Digits[(n % b) + 1]
Spell(n, radix) == CASE radix = 10 -> InBase(n, 10) [] radix = 16 -> "0x" \o InBase(n, 16) [] radix = 2 -> "0b" \o InBase(n, 2)
=====================================================================
