SPECIFICATION Spec
INVARIANT StateInv
POSTCONDITION Accepted
CHECK_DEADLOCK FALSE
