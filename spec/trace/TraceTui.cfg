SPECIFICATION Spec
INVARIANT EditorInv
POSTCONDITION Accepted
CHECK_DEADLOCK FALSE
