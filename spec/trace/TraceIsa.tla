--------------------------- MODULE TraceIsa ---------------------------
(* Instruction-level trace validation (C01, C15): the harness runs the real
   machine from instruction boundary to instruction boundary and logs, per
   instruction, the complete projected state and the number of clock edges.
   Every "isa_insn" event must be exactly IsaStep of the previous abstract state
   - registers R0-R2, PC, FR, SP, all of RAM, outputs, bus and board registers -
   and the edge count must be the cost the ISA prescribes.  State left by
   earlier instructions (stale scratch registers, self-modified code, PC in the
   I/O page) is carried along by the real machine, not by the specification.   *)
EXTENDS TraceCommon
I == INSTANCE Isa

Rec == ndJsonDeserialize(IOEnv.TRACE)
N == Len(Rec)
VARIABLES a, l
vars == <<a, l>>

Abs(s) == [s EXCEPT !.maddr = 0, !.ir = 0, !.prw = -1, !.pfw = FALSE, !.wait = FALSE,
                    !.aout = 0, !.ac = FALSE, !.az = FALSE, !.an = FALSE, !.lbr = 0,
                    !.regs = [j \in 0..7 |-> IF j <= 5 THEN s.regs[j] ELSE 0]]
AbsC(s) == Abs(s) @@ [cyc |-> 0]
Logged(r) == AbsC(FromLog(r.s))
Z(e) == [e EXCEPT !.cyc = 0]

IsaOps == {"isa_init", "isa_insn", "isa_halt", "isa_stuck", "isa_key"}
\* events of other kinds (machine-level calls between ISA-level runs) are skipped; an isa_init follows them
Init == a = (IF Rec[1].op = "isa_init" THEN Logged(Rec[1]) ELSE [st |-> "none"]) /\ l = 2
Step ==
  /\ l <= N
  /\ LET r == Rec[l]  e == IF a.st = "none" THEN a ELSE I!IsaStep(a) IN
     \/ r.op = "isa_init" /\ a' = Logged(r)
     \/ r.op \notin IsaOps /\ r.op \notin {"panic", "hang"} /\ a' = [st |-> "none"]
     \/ /\ r.op = "isa_insn"
        /\ IF e.st = "Unspec" THEN a' = Logged(r)
           ELSE /\ e.st = "Running"
                /\ Logged(r) = Z(e)                \* ... and nothing else changes
                /\ r.a.k = e.cyc                   \* C15
                /\ a' = Z(e)
     \/ /\ r.op = "isa_halt"
        /\ IF e.st = "Unspec" THEN TRUE
           ELSE IF e.st = "Stopped" THEN Logged(r) = Z(e)
           ELSE e.st = "ErrorStopped" /\ r.s.st = "ErrorStopped"
        /\ a' = Logged(r)
     \/ /\ r.op = "isa_stuck"
        /\ e.st \in {"Hang", "Unspec"}
        /\ a' = a
     \/ /\ r.op = "isa_key"
        /\ a' = I!IsaKeyInt(a)
        /\ Logged(r) = a'
  /\ l' = l + 1
Spec == Init /\ [][Step]_vars
Accepted ==
  LET d == TLCGet("stats").diameter IN
  IF d = N THEN TRUE
  ELSE /\ PrintT(<<"REJECTED", d + 1, IF d + 1 <= N THEN Rec[d + 1].seq ELSE -1, IF d + 1 <= N THEN Rec[d + 1].op ELSE "none">>)
       /\ FALSE
=====================================================================
