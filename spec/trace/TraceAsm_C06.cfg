CONSTANT Prop = "C06"
SPECIFICATION Spec
POSTCONDITION Accepted
CHECK_DEADLOCK FALSE
