------------------------- MODULE TraceMachine -------------------------
(* Trace validation of the real Machine against Micro/Machine.tla.

   The harness logs one NDJSON event per public call with the complete
   projected post-state (private fields through the verif hooks).  Each event
   is matched by the specification's action of the same name and EVERY logged
   field has to equal the specification's post-state; RAM is carried by the
   specification and compared through a checksum on every event and in full on
   init/load/checkpoint events.

   One assembly-mode key ("asm_step", n edges as measured by the harness) is
   replayed as n ordinary EdgeF steps under the counter `cnt`, walking the
   declarative definition of C11: an edge may only be issued while the step is
   not complete, and the event may only be closed when it is complete.

   A "panic" or "hang" event has no action: the trace is rejected there.    *)
EXTENDS TraceCommon

Rec == ndJsonDeserialize(IOEnv.TRACE)
N == Len(Rec)

VARIABLES m, mode, l, cnt, left, taint
vars == <<m, mode, l, cnt, left, taint>>

\* every logged field equals the specification's state
Match(x, md, s) ==
  /\ x.maddr = s.maddr /\ x.ir = s.ir /\ x.regs = Fn0(s.regs) /\ x.prw = s.prw /\ x.pfw = s.pfw
  /\ x.pei = s.pei /\ x.pli = s.pli /\ x.wait = s.wait /\ x.st = s.st
  /\ x.aout = s.aout /\ x.ac = s.ac /\ x.az = s.az /\ x.an = s.an /\ x.lbr = s.lbr
  /\ x.ss = s.ss /\ x.ps = s.ps
  /\ x.inr = Fn0(s.inr) /\ x.outr = Fn0(s.outr)
  /\ x.micr = s.micr /\ x.misr = s.misr /\ x.ucr = s.ucr /\ x.usr = s.usr
  /\ x.usend = s.usend /\ x.urecv = s.urecv
  /\ x.ten = s.ten /\ x.td1 = s.td1 /\ x.td2 = s.td2 /\ x.td3 = s.td3
  /\ x.bd = BoardOf(s.bd)
  /\ RamSum(x.ram) = s.ramsum
  /\ IsInstructionDone(x) = s.done
  /\ md = s.mode
MatchFull(x, md, s) == Match(x, md, s) /\ x.ram = Fn0(s.ram)

\* C11, declaratively: the step is complete when the machine is halted, or is at an
\* instruction boundary after having left the one it started on.
\* An undefined opcode never reaches a boundary: the micro-sequencer ends up in a state that an
\* edge does not change; the step then ends at the first such fix-point ("always returns").
Commits(x) == ~x.wait /\ x.prw >= 0
Breaks(x) == Commits(x) /\ LET r2 == [x.regs EXCEPT ![x.prw] = x.aout] IN ~SpValid(x.ss, r2[5]) \/ ~PcValid(x.ps, r2[3])
StopWins(x) == x.st = "Running" /\ Breaks(x) /\ ~x.wait /\ x.lbr = 1
               /\ LET w == Word(x.maddr) IN MAC0(w) /\ MAC2(w) /\ ~MAC1(w)
AsmComplete(x, lf) == x.st # "Running" \/ (lf /\ IsInstructionDone(x)) \/ EdgeF(x) = x

Init == /\ Rec[1].op = "init"
        /\ m = FromLog(Rec[1].s) /\ mode = Rec[1].s.mode
        /\ l = 2 /\ cnt = 0 /\ left = FALSE /\ taint = FALSE

Step ==
  /\ l <= N
  /\ LET r == Rec[l] IN
     \/ /\ r.op = "init"                      \* a new run starts: adopt the logged state
        /\ m' = FromLog(r.s) /\ mode' = r.s.mode /\ l' = l + 1 /\ cnt' = 0 /\ left' = FALSE /\ taint' = FALSE
     \/ /\ r.op \in SimpleOps
        /\ m' = ApplyOp(m, OpOf(r))
        /\ mode' = IF r.op = "mode" THEN r.a.v ELSE mode
        /\ r.op = "bus_read" => BusRead(m, r.a.a) = r.a.r
        /\ IF r.op = "checkpoint" THEN MatchFull(m', mode', r.s) ELSE Match(m', mode', r.s)
        /\ l' = l + 1 /\ cnt' = 0 /\ left' = FALSE
        /\ taint' = IF r.op \in {"cpu_reset", "master_reset", "set_limits"} THEN FALSE
                    ELSE IF r.op = "edge" THEN (taint \/ StopWins(m)) ELSE taint
     \/ /\ r.op = "newm"                      \* Machine::new(config) / Machine::new_with_program(config, program): computed, not adopted
        /\ LET c == r.a.cfg
               cf == [inr |-> [k \in 0..3 |-> c.inr[k + 1]], di1 |-> c.di1, temp |-> c.temp, j1 |-> c.j1, j2 |-> c.j2,
                      ai1 |-> c.ai1, ai2 |-> c.ai2, uio1 |-> c.uio1, uio2 |-> c.uio2, uio3 |-> c.uio3]
           IN m' = IF r.a.prog = 1 THEN NewWithProgramF(cf, r.a.image, r.a.ss, r.a.ps) ELSE ApplyConfigF(MachineInit, cf)
        /\ mode' = "Real" /\ MatchFull(m', mode', r.s)
        /\ l' = l + 1 /\ cnt' = 0 /\ left' = FALSE /\ taint' = FALSE
     \/ /\ r.op = "load_raw"
        /\ m' = LoadRawF(m, r.a.image) /\ mode' = mode /\ MatchFull(m', mode', r.s)
        /\ l' = l + 1 /\ cnt' = 0 /\ left' = FALSE /\ taint' = FALSE
     \/ /\ r.op = "probe"                     \* a reset / load applied to a clone: the history machine is unchanged
        /\ LET pr == CASE r.a.kind = "cpu_reset" -> CpuResetF(m)
                       [] r.a.kind = "master_reset" -> MasterResetF(m)
                       [] OTHER -> LoadF(m, r.a.image, r.a.ss, r.a.ps)
           IN MatchFull(pr, mode, r.s)
        /\ UNCHANGED <<m, mode, cnt, left, taint>> /\ l' = l + 1
     \/ /\ r.op = "lockstep"                  \* n edges after a load; the harness compared a fresh machine every cycle
        /\ r.a.first_diff = -1
        /\ cnt = r.a.n => (Match(m, mode, r.s) /\ l' = l + 1 /\ cnt' = 0 /\ UNCHANGED <<m, mode, left, taint>>)
        /\ cnt < r.a.n => (m' = EdgeF(m) /\ cnt' = cnt + 1 /\ UNCHANGED <<mode, l, left, taint>>)
     \/ /\ r.op = "load"
        /\ m' = ApplyOp(m, OpOf(r))
        /\ MatchFull(m', mode, r.s)
        /\ mode' = mode /\ l' = l + 1 /\ cnt' = 0 /\ left' = FALSE /\ taint' = FALSE
     \/ /\ r.op = "asm_step" /\ mode = "Assembly"
        /\ LET lf == IF cnt = 0 THEN ~IsInstructionDone(m) ELSE left IN
           IF cnt < r.a.n
           THEN \* one more edge of the step: only allowed while the step is incomplete
                /\ ~AsmComplete(m, lf)
                /\ m' = EdgeF(m)
                /\ left' = (lf \/ ~IsInstructionDone(m'))
                /\ cnt' = cnt + 1 /\ l' = l /\ mode' = mode /\ taint' = (taint \/ StopWins(m))
           ELSE \* close the event: the step must be complete, never more, never less
                /\ cnt = r.a.n
                /\ AsmComplete(m, lf)
                /\ Match(m, mode, r.s)
                /\ m' = m /\ mode' = mode /\ l' = l + 1 /\ cnt' = 0 /\ left' = FALSE /\ taint' = taint

Spec == Init /\ [][Step]_vars

\* ---- invariants evaluated at every state of the validated behaviour ---------
TypeInv == TypeOK(m)
\* C05: while Running the stack pointer and program counter respect their limits.  (`taint`: the edge
\* that fetched STOP also committed an illegal PC / SP - the regular stop wins; after the continue key the
\* run goes on with that value until the next commit: a corner the property text leaves open, exempt.)
SupInv == m.st = "Running" /\ ~taint => Supervised(m)

\* highest consumed event index, kept in TLC register 1 (single worker)
Progress == TLCSet(1, IF TLCGet(1) < l THEN l ELSE TLCGet(1))
ASSUME TLCSet(1, 0)

Accepted ==
  LET reached == TLCGet(1) IN
  IF reached = N + 1 THEN TRUE
  ELSE /\ PrintT(<<"REJECTED", reached, IF reached <= N /\ reached >= 1 THEN Rec[reached].seq ELSE -1,
                   IF reached <= N /\ reached >= 1 THEN Rec[reached].op ELSE "none">>)
       /\ FALSE
=====================================================================
