CONSTANT Prop = "C02"
SPECIFICATION Spec
POSTCONDITION Accepted
CHECK_DEADLOCK FALSE
