--------------------------- MODULE TraceTui ---------------------------
(* Trace validation of the real interactive session (driven headless through the
   verif hook: real handle_event, real Interface drawn into a TestBackend after
   every key) against Tui.tla.  After every key: editor text, cursor, history,
   history index, completion list and index, notification, quit flag, step mode,
   autorun, displayed part and the projection of the machine must be a successor
   of the specification; EditorOk is evaluated at every step.  A panic in key
   handling or drawing is an event without an action.                            *)
EXTENDS Tui, Json, IOUtils

Rec == ndJsonDeserialize(IOEnv.TRACE)
N == Len(Rec)
VARIABLES s, l
vars == <<s, l>>

KeyOf(r) == IF r.op \in {"char", "ctrl"} THEN [k |-> r.op, c |-> r.c] ELSE [k |-> r.op]
Fn0(q) == [i \in 0..(Len(q) - 1) |-> q[i + 1]]
\* the history is logged in full, or (long sessions) as its length and its last entries
MatchHist(h, e) ==
  IF "hist" \in DOMAIN e THEN h = e.hist
  ELSE /\ Len(h) = e.hlen
       /\ Len(e.htail) <= Len(h)
       /\ \A i \in 1..Len(e.htail) : h[Len(h) - Len(e.htail) + i] = e.htail[i]
MatchEd(x, r) ==
  /\ x.text = r.ed.text /\ x.cursor = r.ed.cursor /\ MatchHist(x.hist, r.ed) /\ x.hidx = r.ed.hidx
  /\ x.comps = r.ed.comps /\ x.cidx = (IF r.ed.cidx < 0 THEN 0 ELSE r.ed.cidx)
MatchM(x, r) ==
  /\ x.m.regs = Fn0(r.m.regs) /\ x.m.st = r.m.st /\ x.m.maddr = r.m.maddr /\ x.m.ir = r.m.ir
  /\ x.m.inr = Fn0(r.m.inr) /\ x.m.outr = Fn0(r.m.outr)
  /\ x.m.bd.di1 = r.m.di1 /\ x.m.bd.temp = r.m.temp /\ x.m.bd.ai1 = r.m.ai1 /\ x.m.bd.ai2 = r.m.ai2 /\ x.m.bd.dasr = r.m.dasr
  /\ RamSum(x.m.ram) = r.m.ramsum /\ x.m.misr = r.m.misr
  /\ x.mode = (IF r.m.asm THEN "Assembly" ELSE "Real") /\ x.autorun = r.m.autorun /\ x.part = r.m.part
Match(x, r) == MatchEd(x, r) /\ MatchM(x, r) /\ x.notif = r.notif /\ x.quit = r.quit

\* re-synchronise the editor from the log where the specification leaves the result open (file-name completion)
AdoptEd(x, r) == [x EXCEPT !.text = r.ed.text, !.cursor = r.ed.cursor, !.comps = r.ed.comps, !.cidx = IF r.ed.cidx < 0 THEN 0 ELSE r.ed.cidx]

\* `load PATH` of a file whose text the log carries: the documented effect is parse -> assemble -> load (Mrasm.tla, Asm.tla, Machine!LoadF)
A == INSTANCE Asm
RECURSIVE FlatL(_)
FlatL(qq) == IF qq = <<>> THEN <<>> ELSE Head(qq) \o FlatL(Tail(qq))
LoadedFrom(x, ftext) ==
  LET p == A!ParseText(ftext) IN
  IF p.k # "accept" \/ ~A!Defined(p.ast) THEN [special |-> "unspec"]
  ELSE LET asm == A!Assemble(p.ast) IN
       [x EXCEPT !.hist = Append(@, x.text), !.text = <<>>, !.cursor = 0, !.hidx = -1, !.comps = <<>>, !.cidx = 0, !.notif = "none",
                 !.m = LoadF(x.m, FlatL(asm.lines), asm.ss, asm.ps)]

\* A submitted line that lies in an unspecified zone of the command language (e.g. `set TEMP = 0.`, `FC = 0X1F`): the documentation does
\* not decide its effect, so from there to the end of the session only the absence of a panic is required ("free" mode; a scripted
\* session leaves it with the next "new").  Such lines arise when the check edits a previous line (Up, Home, Delete, End, Backspace, Enter).
Free == [free |-> TRUE]
IsFree(x) == "free" \in DOMAIN x

Init == s = SessionInit /\ l = 1
Step ==
  /\ l <= N
  /\ LET r == Rec[l] IN
     \/ r.op = "new" /\ s' = SessionInit
     \/ IsFree(s) /\ r.op \notin {"new", "panic"} /\ s' = s
     \/ /\ ~IsFree(s) /\ r.op \notin {"new", "panic"}
        /\ LET succ == Key([s EXCEPT !.quit = FALSE], KeyOf(r)) IN     \* quit is the answer to ONE key; the scripted session goes on
           \/ \E y \in succ : "special" \notin DOMAIN y /\ Match(y, r) /\ s' = y
           \/ /\ [special |-> "files"] \in succ                       \* file-name completion: any candidate list that ends with the typed text
              /\ s' = AdoptEd(s, r) /\ MatchM(s', r) /\ r.notif = "none"
              /\ (r.ed.comps # <<>> => r.ed.comps[Len(r.ed.comps)] = s.text)
           \/ [special |-> "unspec"] \in succ /\ s' = Free
           \/ /\ [special |-> "load"] \in succ /\ "ftext" \in DOMAIN r   \* load of a readable file with a valid program: exactly the documented effect
              /\ LET y == LoadedFrom(s, r.ftext) IN "special" \notin DOMAIN y /\ Match(y, r) /\ s' = y
           \/ /\ [special |-> "load"] \in succ /\ "ftext" \notin DOMAIN r  \* load of a path that cannot be read: notification, machine untouched
              /\ r.notif = "other"
              /\ s' = [s EXCEPT !.hist = Append(@, s.text), !.text = <<>>, !.cursor = 0, !.hidx = -1, !.comps = <<>>, !.cidx = 0, !.notif = "other"]
              /\ Match(s', r)
  /\ l' = l + 1
Spec == Init /\ [][Step]_vars
EditorInv == IsFree(s) \/ EditorOk(s)
Accepted ==
  LET d == TLCGet("stats").diameter IN
  IF d = N + 1 THEN TRUE
  ELSE /\ PrintT(<<"REJECTED", d, IF d <= N THEN Rec[d].seq ELSE -1, IF d <= N THEN Rec[d].op ELSE "none">>)
       /\ FALSE
=====================================================================
