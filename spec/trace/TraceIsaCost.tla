------------------------- MODULE TraceIsaCost -------------------------
(* C15 on recorded executions: only the cycle cost of each instruction is
   compared (the abstract state is re-synchronised from the log after every
   instruction, so a semantic deviation - C01's business - cannot raise a C15 alarm). *)
EXTENDS TraceCommon
I == INSTANCE Isa
Rec == ndJsonDeserialize(IOEnv.TRACE)
N == Len(Rec)
VARIABLES a, l
vars == <<a, l>>
Abs(s) == [s EXCEPT !.maddr = 0, !.ir = 0, !.prw = -1, !.pfw = FALSE, !.wait = FALSE,
                    !.aout = 0, !.ac = FALSE, !.az = FALSE, !.an = FALSE, !.lbr = 0,
                    !.regs = [j \in 0..7 |-> IF j <= 5 THEN s.regs[j] ELSE 0]]
Logged(r) == Abs(FromLog(r.s)) @@ [cyc |-> 0]
IsaOps == {"isa_init", "isa_insn", "isa_halt", "isa_stuck", "isa_key"}
Init == a = (IF Rec[1].op = "isa_init" THEN Logged(Rec[1]) ELSE [st |-> "none"]) /\ l = 2
Step ==
  /\ l <= N
  /\ LET r == Rec[l] IN
     \/ /\ r.op = "isa_insn"
        /\ LET e == I!IsaStep(a) IN e.st = "Running" /\ [e EXCEPT !.cyc = 0] = Logged(r) => r.a.k = e.cyc
        /\ a' = Logged(r)
     \/ r.op \in IsaOps \ {"isa_insn", "isa_stuck"} /\ a' = Logged(r)
     \/ r.op = "isa_stuck" /\ a' = a
     \/ r.op \notin IsaOps /\ r.op \notin {"panic", "hang"} /\ a' = [st |-> "none"]
  /\ l' = l + 1
Spec == Init /\ [][Step]_vars
Accepted ==
  LET d == TLCGet("stats").diameter IN
  IF d = N THEN TRUE
  ELSE /\ PrintT(<<"REJECTED", d + 1, IF d + 1 <= N THEN Rec[d + 1].seq ELSE -1, IF d + 1 <= N THEN Rec[d + 1].op ELSE "none">>)
       /\ FALSE
=====================================================================
