CONSTANT Prop = "C16"
SPECIFICATION Spec
POSTCONDITION Accepted
CHECK_DEADLOCK FALSE
