SPECIFICATION Spec
INVARIANT Progress
INVARIANT TypeInv
POSTCONDITION Accepted
CHECK_DEADLOCK FALSE
