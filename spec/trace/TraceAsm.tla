--------------------------- MODULE TraceAsm ---------------------------
(* Records written by `vh parse-texts ... full`: the real parser's verdict and AST,
   the real translator's output (per line + image + settings), the rendering by
   the real Display and its re-parse.  Judged per property (constant Prop):
     "C02": for accepted, defined programs the byte code equals Asm!Assemble;
     "C06": whatever the real parser accepts compiles, lists and loads without a crash;
     "C16": the rendering is accepted by the language definition AND by the real
            parser, and parses back to the identical program.                    *)
EXTENDS Asm, Json, IOUtils

CONSTANT Prop
Rec == ndJsonDeserialize(IOEnv.TRACE)
N == Len(Rec)
VARIABLE l
Init == l = 1

RECURSIVE Flat(_)
Flat(qq) == IF qq = <<>> THEN <<>> ELSE Head(qq) \o Flat(Tail(qq))

JudgeC02(r) ==
  LET p == ParseText(r.t) IN
  p.k = "accept" /\ Defined(p.ast) =>
    /\ r.v = "accept"
    /\ "bc" \in DOMAIN r                                   \* the translator returned (no crash)
    /\ LET ref == Assemble(p.ast) IN
       /\ Len(r.bc.lines) = Len(p.ast)
       /\ \A k \in 1..Len(p.ast) : r.bc.lines[k].bytes = ref.lines[k] /\ r.bc.lines[k].line = p.ast[k]
       /\ r.bc.image = Flat(ref.lines)
       /\ r.bc.ss = ref.ss /\ r.bc.ps = ref.ps
\* every crash is classified and printed; the check decides (known findings are keyed by the class):
\*   "parser"        the parser itself panicked
\*   "backward_org"  accepted program whose .ORG points below the current address (no reference encoding exists)
\*   "oversize"      accepted program whose image does not fit into the 240-byte RAM
\*   "defined"       accepted program with a reference encoding: nothing may crash here
CrashClass(r) ==
  IF r.v = "panic" THEN "parser"
  ELSE \* classified on the AST the real parser returned (same node shape), so that texts in unspecified zones are covered too
       LET a == AddrOf(r.ast) IN
       IF BackwardOrg(r.ast, 1, a) THEN "backward_org"
       ELSE IF a[Len(a)] > 240 THEN "oversize"
       ELSE "defined"
Crashed(r) == r.v = "panic" \/ (r.v = "accept" /\ ("compile_panic" \in DOMAIN r \/ "render_panic" \in DOMAIN r))
JudgeC06(r) == Crashed(r) => PrintT(<<"CRASH", r.seq, CrashClass(r)>>)
JudgeC16(r) ==
  LET p == ParseText(r.t) IN
  p.k = "accept" /\ r.v = "accept" =>
    /\ "rendered" \in DOMAIN r
    /\ LET q == ParseText(r.rendered) IN q.k = "accept" /\ q.ast = p.ast /\ q.hc = p.hc
    /\ r.reparse = "accept" /\ r.same /\ r.ast2 = p.ast /\ r.hc2 = p.hc
Judge(r) == CASE Prop = "C02" -> JudgeC02(r) [] Prop = "C06" -> JudgeC06(r) [] Prop = "C16" -> JudgeC16(r)
Step == l <= N /\ Judge(Rec[l]) /\ l' = l + 1
Spec == Init /\ [][Step]_l
Accepted ==
  LET d == TLCGet("stats").diameter IN
  IF d = N + 1 THEN TRUE
  ELSE /\ PrintT(<<"REJECTED", d, IF d <= N THEN Rec[d].seq ELSE -1, IF d <= N THEN ParseText(Rec[d].t).k ELSE "none">>)
       /\ FALSE
=====================================================================
