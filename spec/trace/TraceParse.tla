-------------------------- MODULE TraceParse --------------------------
(* C03 (and the parser half of C06 / C16): texts parsed by the REAL parser are
   judged by Mrasm.tla.  Per record: the verdict must agree (unless the text lies
   in an "unspecified" zone, where only the absence of a crash is required), the
   error class must agree, and for accepted texts the AST returned by the real
   parser must be exactly ParseText(text).ast, line by line.                   *)
EXTENDS Mrasm, Json, IOUtils

Rec == ndJsonDeserialize(IOEnv.TRACE)
N == Len(Rec)
VARIABLE l
Init == l = 1
WhyClass(p) == IF p.why = "header" THEN "syntax" ELSE p.why
Judge(r) ==
  LET p == ParseText(r.t) IN
  /\ r.v # "panic"
  /\ p.k = "accept" => r.v = "accept" /\ r.hc = p.hc /\ r.ast = p.ast
  /\ p.k = "reject" => r.v = "reject" /\ r.why = WhyClass(p)
Step == l <= N /\ Judge(Rec[l]) /\ l' = l + 1
Spec == Init /\ [][Step]_l
Accepted ==
  LET d == TLCGet("stats").diameter IN
  IF d = N + 1 THEN TRUE
  ELSE /\ PrintT(<<"REJECTED", d, IF d <= N THEN Rec[d].seq ELSE -1, IF d <= N THEN ParseText(Rec[d].t).k ELSE "none">>)
       /\ FALSE
\* statistics for the evidence: how many texts fell into each class
Stats == [k \in {"accept", "reject", "unspecified"} |-> Cardinality({n \in 1..N : ParseText(Rec[n].t).k = k})]
=====================================================================
