SPECIFICATION Spec
INVARIANT Progress
INVARIANT TypeInv
INVARIANT SupInv
POSTCONDITION Accepted
CHECK_DEADLOCK FALSE
