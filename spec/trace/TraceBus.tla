--------------------------- MODULE TraceBus ---------------------------
(* Trace validation restricted to what C10 states: every event must be a step of
   the specification as far as RAM, input registers, output registers, MICR, MISR
   and the board's ports are concerned, and every read must return what the map
   says for the documented addresses.                                        *)
EXTENDS Machine, Json, IOUtils, TLC

Rec == ndJsonDeserialize(IOEnv.TRACE)
N == Len(Rec)
VARIABLES m, l
vars == <<m, l>>
Fn0(seq) == [i \in 0..(Len(seq) - 1) |-> seq[i + 1]]
OpOf(r) == [op |-> r.op] @@ r.a

FromLog(s) == [MachineInit EXCEPT !.ram = Fn0(s.ram), !.inr = Fn0(s.inr), !.outr = Fn0(s.outr),
                                  !.micr = s.micr, !.misr = s.misr,
                                  !.bd = [BoardInit EXCEPT !.di1 = s.bd.di1, !.do1 = s.bd.do1, !.do2 = s.bd.do2]]
MatchBus(x, s) ==
  /\ RamSum(x.ram) = s.ramsum /\ x.inr = Fn0(s.inr) /\ x.outr = Fn0(s.outr)
  /\ x.micr = s.micr /\ x.misr = s.misr
  /\ x.bd.di1 = s.bd.di1 /\ x.bd.do1 = s.bd.do1 /\ x.bd.do2 = s.bd.do2
DocumentedRead == (0..240) \cup {249} \cup (252..255)

Init == Rec[1].op = "init" /\ m = FromLog(Rec[1].s) /\ l = 2
Step ==
  /\ l <= N
  /\ LET r == Rec[l] IN
     /\ r.op \in SimpleOps \ {"edge", "cpu_reset", "master_reset", "set_limits", "mode"}
     /\ m' = ApplyOp(m, OpOf(r))
     /\ r.op = "bus_read" /\ r.a.a \in DocumentedRead => BusRead(m, r.a.a) = r.a.r
     /\ r.op = "bus_read" /\ r.a.a = 241 => r.a.r = r.s.bd.dasr
     /\ r.op = "bus_read" /\ r.a.a = 243 => r.a.r = r.s.bd.daisr
     /\ MatchBus(m', r.s)
     /\ r.op = "checkpoint" => m'.ram = Fn0(r.s.ram)
  /\ l' = l + 1
Spec == Init /\ [][Step]_vars
Accepted ==
  LET d == TLCGet("stats").diameter IN
  IF d = N THEN TRUE
  ELSE /\ PrintT(<<"REJECTED", d + 1, IF d + 1 <= N THEN Rec[d + 1].seq ELSE -1, IF d + 1 <= N THEN Rec[d + 1].op ELSE "none">>)
       /\ FALSE
=====================================================================
