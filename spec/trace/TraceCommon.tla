-------------------------- MODULE TraceCommon --------------------------
(* Shared by the trace specifications: reading the harness's NDJSON projection. *)
EXTENDS Machine, Json, IOUtils, TLC

Fn0(seq) == [i \in 0..(Len(seq) - 1) |-> seq[i + 1]]

BoardOf(b) == [di1 |-> b.di1, do1 |-> b.do1, do2 |-> b.do2, temp |-> b.temp, ai1 |-> b.ai1, ai2 |-> b.ai2,
               ao1 |-> b.ao1, ao2 |-> b.ao2, dasr |-> b.dasr, daisr |-> b.daisr, daicr |-> b.daicr,
               fan |-> b.fan, ud1 |-> b.ud1, ud2 |-> b.ud2, ud3 |-> b.ud3]

\* full state from an event that carries the RAM
FromLog(s) ==
  [maddr |-> s.maddr, ir |-> s.ir, regs |-> Fn0(s.regs), prw |-> s.prw, pfw |-> s.pfw,
   pei |-> s.pei, pli |-> s.pli, wait |-> s.wait, st |-> s.st,
   aout |-> s.aout, ac |-> s.ac, az |-> s.az, an |-> s.an, lbr |-> s.lbr, ss |-> s.ss, ps |-> s.ps,
   ram |-> Fn0(s.ram), inr |-> Fn0(s.inr), outr |-> Fn0(s.outr),
   micr |-> s.micr, misr |-> s.misr, ucr |-> s.ucr, usr |-> s.usr, usend |-> s.usend, urecv |-> s.urecv,
   ten |-> s.ten, td1 |-> s.td1, td2 |-> s.td2, td3 |-> s.td3, bd |-> BoardOf(s.bd)]

OpOf(r) == [op |-> r.op] @@ r.a
=====================================================================
