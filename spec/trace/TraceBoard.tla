-------------------------- MODULE TraceBoard --------------------------
(* Trace validation restricted to what C14 states: after every port write and
   every external setter the complete board record and the values read at
   0xF0-0xF3 have to be those of Board.tla; the state invariant of the property
   (MC_Board!StateInv, restated here) is evaluated at every step.            *)
EXTENDS Machine, Json, IOUtils, TLC

Rec == ndJsonDeserialize(IOEnv.TRACE)
N == Len(Rec)
VARIABLES m, l
vars == <<m, l>>
OpOf(r) == [op |-> r.op] @@ r.a
BoardOf(b) == [di1 |-> b.di1, do1 |-> b.do1, do2 |-> b.do2, temp |-> b.temp, ai1 |-> b.ai1, ai2 |-> b.ai2,
               ao1 |-> b.ao1, ao2 |-> b.ao2, dasr |-> b.dasr, daisr |-> b.daisr, daicr |-> b.daicr,
               fan |-> b.fan, ud1 |-> b.ud1, ud2 |-> b.ud2, ud3 |-> b.ud3]
Ops == {"bus_write", "bus_read", "set_di1", "set_temp", "set_ai1", "set_ai2", "set_j1", "set_j2", "set_uio"}

Init == Rec[1].op = "init" /\ m = [MachineInit EXCEPT !.bd = BoardOf(Rec[1].s.bd)] /\ l = 2
Step ==
  /\ l <= N
  /\ LET r == Rec[l] IN
     /\ r.op \in Ops
     /\ m' = ApplyOp(m, OpOf(r))
     /\ r.op = "bus_read" /\ r.a.a \in 240..243 => BusRead(m, r.a.a) = r.a.r
     /\ m'.bd = BoardOf(r.s.bd)
  /\ l' = l + 1
Spec == Init /\ [][Step]_vars

Max(x, y) == IF x > y THEN x ELSE y
StateInv ==
  LET b == m.bd IN
  /\ BoardTypeOK(b)
  /\ Bit(b.dasr, 3) = (b.ai1 > b.ao1)
  /\ Bit(b.dasr, 4) = (Max(b.ai2, b.temp) > b.ao2)
  /\ BusRead(m, 242) \in {FanPeriodIdeal(b.do1), FanPeriodIdeal(b.do1) + 1}

Accepted ==
  LET d == TLCGet("stats").diameter IN
  IF d = N THEN TRUE
  ELSE /\ PrintT(<<"REJECTED", d + 1, IF d + 1 <= N THEN Rec[d + 1].seq ELSE -1, IF d + 1 <= N THEN Rec[d + 1].op ELSE "none">>)
       /\ FALSE
=====================================================================
