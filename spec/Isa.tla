------------------------------ MODULE Isa ------------------------------
(* Instruction-level semantics of the Minirechner 2a: the "instruction-set
   definition" that C01 / C15 / C04 refer to.  INDEPENDENT of Micro.tla: it is
   written from the ISA-level reading of the microprogram listing's comments,
   the AST doc comments and the property texts; it shares only the bus map
   (Bus.tla) and the supervision predicates with the micro-level model.

   Abstract state a: the machine record of Micro.tla with the sequencer,
   latches and scratch registers normalised away (Abs), plus the ghost field
     cyc : clock edges spent by the current instruction (C15).
   regs[3] = PC, regs[4] = FR (C bit0, Z bit1, N bit2, IE bit3, bits 4-7 kept),
   regs[5] = SP.  pei = a key interrupt is pending.

   IsaStep(a) = state at the next instruction boundary.  Every register commit
   is supervised (Set): when SP enters the forbidden band / PC exceeds the limit
   the state becomes ErrorStopped and the remaining effects are unspecified at
   this level (only `st` is compared; C05 covers the halting edge itself).
   st = "Hang": the instruction never completes (undefined opcode).
   st = "Unspec": second opcode bytes 0x02-0x0F (fall into the interrupt routine).

   Cost (C15): edges from boundary to boundary = 1 (the next fetch word)
   + body words of the form + one wait per access to an address <= 0xEF
   (own opcode fetch, operand / second-byte fetches, data reads and writes).  *)
EXTENDS Bus

ISpValid(ss, sp) ==
  /\ sp < 240
  /\ CASE ss = 0  -> TRUE
       [] ss = 16 -> sp <= 208 \/ sp >= 223
       [] ss = 32 -> sp <= 192 \/ sp >= 207
       [] ss = 48 -> sp <= 176 \/ sp >= 191
       [] ss = 64 -> sp <= 160 \/ sp >= 175
IPcValid(ps, pc) == IF ps >= 0 THEN pc <= ps ELSE pc = 0

Run(a) == a.st = "Running"
R(a, k) == a.regs[k]
PC(a) == a.regs[3]
FR(a) == a.regs[4]
SP(a) == a.regs[5]
Cy(a) == a.regs[4] % 2
IE(a) == (a.regs[4] \div 8) % 2 = 1

\* ---- cost bookkeeping ---------------------------------------------------------
W(addr) == IF addr <= 239 THEN 1 ELSE 0
Tk(a, addr) == [a EXCEPT !.cyc = @ + W(addr)]            \* one bus access
Body(a, n) == [a EXCEPT !.cyc = @ + n]                   \* n micro-program words

\* ---- memory ---------------------------------------------------------------------
Rd(a, addr) == BusRead(a, addr)
Wr(a, addr, v) == IF ~Run(a) THEN a ELSE Tk(BusWrite(a, addr, v), addr)

\* ---- register commit with supervision -------------------------------------------
Set(a, k, v) ==
  IF ~Run(a) THEN a
  ELSE LET b == [a EXCEPT !.regs[k] = v] IN
       IF ISpValid(b.ss, b.regs[5]) /\ IPcValid(b.ps, b.regs[3]) THEN b ELSE [b EXCEPT !.st = "ErrorStopped"]
Flags(a, c, z, n) ==
  IF ~Run(a) THEN a ELSE [a EXCEPT !.regs[4] = (@ \div 8) * 8 + B2N(c) + 2 * B2N(z) + 4 * B2N(n)]
ZN(a, c, v) == Flags(a, c, v = 0, v >= 128)
Inc(a, k) == Set(a, k, (R(a, k) + 1) % 256)

\* ---- operand fetch: <<state, value>>; modes R, (R), (R+), ((R+)) -----------------
Src(a, md, rs) ==
  CASE md = 0 -> <<a, R(a, rs)>>
    [] md = 1 -> <<Tk(a, R(a, rs)), Rd(a, R(a, rs))>>
    [] md = 2 -> <<Inc(Tk(a, R(a, rs)), rs), Rd(a, R(a, rs))>>
    [] md = 3 -> LET p == R(a, rs)  q == Rd(a, p) IN <<Inc(Tk(Tk(a, p), q), rs), Rd(a, q)>>
\* destination: address, value read (with cost), write, post-increment
DstAddr(a, md, rd) == IF md = 3 THEN Rd(a, R(a, rd)) ELSE R(a, rd)
DstVal(a, md, rd) == IF md = 0 THEN R(a, rd) ELSE Rd(a, DstAddr(a, md, rd))
\* cost of evaluating the destination address (indirection read for mode 3)
DstAddrTk(a, md, rd) == IF md = 3 THEN Tk(a, R(a, rd)) ELSE a
DstReadTk(a, md, rd) == IF md = 0 THEN a ELSE Tk(DstAddrTk(a, md, rd), DstAddr(a, md, rd))
DstPut(a, md, rd, v) == IF md = 0 THEN Set(a, rd, v) ELSE Wr(a, DstAddr(a, md, rd), v)
DstPost(a, md, rd) == IF md >= 2 THEN Inc(a, rd) ELSE a

\* ---- interrupt sampling at the end of an instruction ------------------------------
\* entry: push FR, push the address of the next instruction, clear IE (and FR bits 4-7), PC := 2
IntEntry(a) ==
  LET a0 == Body(a, 8)                                   \* int: word + 7 words of the entry routine
      a1 == Set(a0, 5, Dec8(SP(a0)))
      a2 == Wr(a1, SP(a1), FR(a1))
      a3 == Set(a2, 5, Dec8(SP(a2)))
      a4 == Wr(a3, SP(a3), PC(a3))
      a5 == Set(a4, 4, FR(a4) % 8)
  IN Set(a5, 3, 2)
Sample(a) ==
  IF ~Run(a) THEN a
  ELSE IF a.pei /\ IE(a) THEN IntEntry([a EXCEPT !.pei = FALSE])
  ELSE [a EXCEPT !.pei = FALSE]

\* ---- MUL / DIV: data-dependent number of micro-program words -------------------------
\* MUL shifts the multiplier (Rd) right until it is zero: per processed bit LSR + branch,
\* an ADD when the bit is set, TST + (while bits remain) LSL of the multiplicand.
MulBody(d) ==
  LET RECURSIVE L(_)
      L(x) == LET bit == x % 2  rest == x \div 2 IN
              2 + bit + (IF rest = 0 THEN 0 ELSE 1 + L(rest))
  IN 2 + L(d) + 1
\* DIV subtracts the divisor while the remainder stays non-negative: two words per subtraction
DivBody(d, s) == IF s = 0 THEN 4 ELSE 5 + 2 * (d \div s)

\* ---- one-byte instructions; a has PC already incremented ------------------------------
Exec1(a, op) ==
  LET hi == op \div 16  x == (op \div 4) % 4  y == op % 4 IN
  CASE hi = 0 ->
         (CASE x = 0 -> Sample(Body(a, 1))                                        \* NOP (02, 03)
            [] x = 1 -> Sample(Set(Body(a, 1), y, 0))                             \* CLR
            [] x = 2 -> Set(Body(a, 2), 4, FR(a) | 248)                           \* EI (no sampling)
            [] x = 3 -> Set(Body(a, 2), 4, FR(a) % 8))                            \* DI (no sampling)
    [] hi = 1 ->
         (CASE x = 0 -> LET v == R(a, y)  a1 == Set(Body(a, 3), 5, Dec8(SP(a))) IN Sample(Wr(a1, SP(a1), v))   \* PUSH
            [] x = 1 -> LET v == Rd(a, SP(a))  a1 == Set(Tk(Body(a, 3), SP(a)), y, v) IN                       \* POP / RET
                        Sample(Set(a1, 5, Inc8(SP(a1))))
            [] x = 2 -> LET v == FR(a)  a1 == Set(Body(a, 3), 5, Dec8(SP(a))) IN Sample(Wr(a1, SP(a1), v))      \* PUSHF
            [] x = 3 -> LET a1 == Set(Tk(Body(a, 2), SP(a)), 4, Rd(a, SP(a))) IN Sample(Set(a1, 5, Inc8(SP(a1)))))  \* POPF
    [] hi = 2 ->
         (CASE x <= 1 ->                                                            \* JR / Jcc: 0010 0icc
                 LET sel == op % 4  inv == (op \div 4) % 2 = 1
                     cond == CASE sel = 0 -> TRUE [] sel = 1 -> FR(a) % 2 = 1
                               [] sel = 2 -> (FR(a) \div 2) % 2 = 1 [] sel = 3 -> (FR(a) \div 4) % 2 = 1
                     taken == inv # cond
                 IN IF taken THEN Sample(Set(Tk(Body(a, 2), PC(a)), 3, (Rd(a, PC(a)) + PC(a) + 1) % 256))
                    ELSE Sample(Inc(Body(a, 2), 3))
            [] x = 2 -> LET a1 == Set(Body(a, 5), 5, Dec8(SP(a)))  p == PC(a1)          \* CALL
                            a2 == Inc(Tk(a1, p), 3)  a3 == Wr(a2, SP(a2), PC(a2))
                        IN Sample(Set(a3, 3, Rd(a3, p)))
            [] x = 3 -> LET a1 == Set(Tk(Body(a, 4), SP(a)), 3, Rd(a, SP(a)))             \* RETI (no sampling)
                            a2 == Set(a1, 5, Inc8(SP(a1)))
                            a3 == Set(Tk(a2, SP(a2)), 4, Rd(a2, SP(a2)))
                        IN Set(a3, 5, Inc8(SP(a3))))
    [] hi = 3 -> LET v == R(a, y) IN
         (CASE x = 0 -> Sample(ZN(Set(Body(a, 1), y, Com(v)), FALSE, Com(v)))                    \* COM
            [] x = 1 -> LET a1 == Set(Body(a, 2), y, Com(v))  w == R(a1, y)                      \* NEG = COM ; INC
                        IN Sample(ZN(Set(a1, y, (w + 1) % 256), w + 1 > 255, (w + 1) % 256))
            [] x = 2 -> Sample(ZN(Set(Body(a, 1), y, v \div 2), v % 2 = 1, v \div 2))           \* LSR
            [] x = 3 -> LET r == (v \div 2) + 128 * (v \div 128) IN                              \* ASR
                        Sample(ZN(Set(Body(a, 1), y, r), v % 2 = 1, r)))
    [] hi = 4 -> LET v == R(a, y) IN
         (CASE x = 0 -> LET r == (v \div 2) + 128 * Cy(a) IN Sample(ZN(Set(Body(a, 1), y, r), v % 2 = 1, r))   \* RRC
            [] x = 1 -> Sample(ZN(Set(Body(a, 1), y, (v + 1) % 256), v + 1 > 255, (v + 1) % 256))             \* INC
            [] x = 2 -> Sample(ZN(Body(a, 1), FALSE, v))                                                      \* TST
            [] x = 3 -> [a EXCEPT !.st = "Hang"])
    [] hi = 5 ->                                                                    \* DEC dst, 4 modes
         LET md == x  rd == y
             v == DstVal(a, md, rd)  r == Dec8(v)
             a0 == DstReadTk(Body(a, CASE md = 0 -> 1 [] md = 1 -> 3 [] md = 2 -> 4 [] md = 3 -> 5), md, rd)
             a1 == IF md = 0 THEN ZN(Set(a0, rd, r), v = 0, r) ELSE DstPut(ZN(a0, v = 0, r), md, rd, r)
         IN Sample(DstPost(a1, md, rd))
    [] hi = 6 -> LET s == R(a, x) + R(a, y) IN Sample(ZN(Set(Body(a, 1), y, s % 256), s > 255, s % 256))            \* ADD
    [] hi = 7 -> LET s == R(a, x) + R(a, y) + Cy(a) IN Sample(ZN(Set(Body(a, 1), y, s % 256), s > 255, s % 256))   \* ADC
    [] hi = 8 -> LET d == R(a, y)  s == R(a, x) IN                                                                 \* SUB
                 Sample(ZN(Set(Body(a, 3), y, (d + 256 - s) % 256), d < s, (d + 256 - s) % 256))
    [] hi = 9 -> LET r == R(a, y) & R(a, x) IN Sample(Set(ZN(Body(a, 6), FALSE, r), y, r))                          \* AND
    [] hi = 10 -> LET r == R(a, y) | R(a, x) IN Sample(Set(ZN(Body(a, 4), FALSE, r), y, r))                         \* OR
    [] hi = 11 ->                                                                  \* MUL: Rd := Rd * Rs mod 256, C := product > 255
         IF y = 3 THEN [a EXCEPT !.st = "Unspec"]                                  \* PC as accumulator: intermediate values are not defined
         ELSE LET p == R(a, y) * R(a, x)  r == p % 256 IN
              Sample(Flags(Set(Body(a, MulBody(R(a, y))), y, r), p > 255, r = 0, r >= 128))
    [] hi = 12 ->                                                                  \* DIV: Rd := Rd / Rs ; x / 0 = 0xFF with carry
         IF y = 3 THEN [a EXCEPT !.st = "Unspec"]
         ELSE LET d == R(a, y)  dv == R(a, x) IN
              IF dv = 0 THEN Sample(Set(ZN(Body(a, DivBody(d, 0)), TRUE, 255), y, 255))
              ELSE LET q == d \div dv IN Sample(Set(ZN(Body(a, DivBody(d, dv)), FALSE, q), y, q))
    [] hi = 13 -> LET r == R(a, y) ^^ R(a, x) IN                                                                    \* XOR
                  \* (the microprogram parks an intermediate NOR in Rd; visible only through supervision when Rd = PC)
                  LET a1 == Set(Body(a, 7), y, Com(R(a, y) | R(a, x))) IN Sample(ZN(Set(a1, y, r), FALSE, r))
    [] hi = 14 -> [a EXCEPT !.st = "Hang"]

\* ---- second opcode byte of the 0xF_ class; v = source value ------------------------------
Exec2(a, v, op2) ==
  LET hi == op2 \div 16  md == (op2 \div 4) % 4  rd == op2 % 4
      Bd(n0, n1, n2, n3) == CASE md = 0 -> n0 [] md = 1 -> n1 [] md = 2 -> n2 [] md = 3 -> n3
  IN
  CASE hi = 1 -> Sample(DstPost(DstPut(DstAddrTk(Body(a, Bd(1, 1, 2, 3)), md, rd), md, rd, v), md, rd))            \* MOV
    [] hi = 2 -> LET d == DstVal(a, md, rd)                                                                        \* CMP
                     a1 == DstPost(DstReadTk(Body(a, Bd(3, 3, 4, 5)), md, rd), md, rd)
                 IN Sample(ZN(a1, d < v, (d + 256 - v) % 256))
    [] hi = 3 -> LET d == DstVal(a, md, rd)                                                                        \* BITT
                     a1 == DstPost(DstReadTk(Body(a, Bd(4, 4, 5, 6)), md, rd), md, rd)
                 IN Sample(ZN(a1, FALSE, d & v))
    [] hi = 4 /\ md = 0 -> Sample(Set(ZN(Body(a, 1), FALSE, v), 5, v))                                             \* LDSP (sets Z, N)
    [] hi = 4 /\ md = 1 -> Sample(Set(ZN(Body(a, 1), FALSE, v), 4, v))                                             \* LDFR
    [] hi = 5 -> LET d == DstVal(a, md, rd)  r == d | v                                                            \* BITS
                     a0 == DstReadTk(Body(a, Bd(3, 3, 4, 5)), md, rd)
                     a1 == IF md = 0 THEN Set(ZN(a0, FALSE, r), rd, r) ELSE ZN(DstPut(a0, md, rd, r), FALSE, r)
                 IN Sample(DstPost(a1, md, rd))
    [] hi = 6 -> LET d == DstVal(a, md, rd)  r == d & Com(v)                                                       \* BITC
                     \* ((Rd+)): the micro-program fetches the pointer a second time before the write-back
                     a0 == LET x == DstReadTk(Body(a, Bd(4, 4, 5, 7)), md, rd) IN IF md = 3 THEN Tk(x, R(a, rd)) ELSE x
                     a1 == IF md = 0 THEN Set(ZN(a0, FALSE, r), rd, r) ELSE ZN(DstPut(a0, md, rd, r), FALSE, r)
                 IN Sample(DstPost(a1, md, rd))
    [] hi = 0 -> [a EXCEPT !.st = "Unspec"]
    [] OTHER -> [a EXCEPT !.st = "Hang"]

\* every opcode byte 0x2C loaded into the instruction register (RETI, or a second byte of
\* that value) clears the key-interrupt bits of the interrupt status register
MisrOnLoad(a, byte) == IF byte = 44 /\ Run(a) THEN [a EXCEPT !.misr = Clr8(@, 17)] ELSE a

IsaStep(a00) ==
  LET a0 == [a00 EXCEPT !.cyc = 1 + W(PC(a00))]           \* the next fetch word + own opcode fetch
      op == Rd(a0, PC(a0))
      a1 == Set(a0, 3, Inc8(PC(a0)))
  IN
  IF op = 1 THEN [a1 EXCEPT !.st = "Stopped"]
  ELSE IF op = 0 THEN [a1 EXCEPT !.st = "ErrorStopped"]
  ELSE IF ~Run(a1) THEN a1
  ELSE IF op < 240 THEN Exec1(MisrOnLoad(a1, op), op)
  ELSE LET md == (op \div 4) % 4
           sv == Src(Body(a1, (CASE md = 0 -> 1 [] md = 1 -> 1 [] md = 2 -> 2 [] md = 3 -> 3) + 1), md, op % 4)
           a2 == sv[1]  v == sv[2]
           op2 == Rd(a2, PC(a2))
           a3 == Set(Tk(a2, PC(a2)), 3, Inc8(PC(a2)))
       IN
       IF ~Run(a2) THEN a2
       ELSE IF op2 = 1 THEN [a3 EXCEPT !.st = "Stopped"]
       ELSE IF op2 = 0 THEN [a3 EXCEPT !.st = "ErrorStopped"]
       ELSE IF ~Run(a3) THEN a3
       ELSE Exec2(MisrOnLoad(a3, op2), v, op2)

\* key interrupt / continue at this level
IsaKeyInt(a) == IF a.micr % 2 = 1 THEN [a EXCEPT !.pei = TRUE, !.misr = @ | 17] ELSE [a EXCEPT !.misr = @ | 1]

\* ---- theorems of the oracle that the property text names (checked by TLC in MC_IsaFacts) ----
\* arithmetic result / flag rules of the register-register group for one operand pair
GroupFacts(opname, d, s, c, res, fc, fz, fn) ==
  /\ fz = (res = 0) /\ fn = (res >= 128)
  /\ opname = "ADD" => res = (d + s) % 256 /\ fc = (d + s > 255)
  /\ opname = "ADC" => res = (d + s + c) % 256 /\ fc = (d + s + c > 255)
  /\ opname = "SUB" => res = (d - s + 256) % 256 /\ fc = (d < s)            \* borrow in carry
  /\ opname = "MUL" => res = (d * s) % 256 /\ fc = (d * s > 255)            \* carry iff product exceeds 255
  /\ opname = "DIV" => IF s = 0 THEN res = 255 /\ fc ELSE res = d \div s /\ ~fc
  /\ opname = "AND" => res = (d & s) /\ ~fc
  /\ opname = "OR" => res = (d | s) /\ ~fc
  /\ opname = "XOR" => res = (d ^^ s) /\ ~fc
=====================================================================
