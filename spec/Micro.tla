---------------------------- MODULE Micro ----------------------------
(* The micro-programmed CPU: RawMachine (emulator-2a-lib/src/machine/raw/mod.rs).

   A machine is a record with the CPU fields
     maddr : 0..511          micro-sequencer address (current control word)
     ir    : byte            instruction register
     regs  : [0..7 -> byte]  R0 R1 R2 PC(=R3) FR(=R4) SP(=R5) R6 R7
     prw   : -1..7           register written at the start of the next edge (-1 none)
     pfw   : BOOLEAN         flags written at the start of the next edge
     pei   : BOOLEAN         edge interrupt flip-flop (pending key interrupt)
     pli   : BOOLEAN         level interrupt line (never raised by today's bus)
     wait  : BOOLEAN         the next edge is a memory wait cycle
     st    : "Running" | "Stopped" | "ErrorStopped"
     aout, ac, az, an        latched ALU output and condition outputs
     lbr   : byte            bus byte read during the last edge
     ss    : 0|16|32|48|64   stack size (supervision)
     ps    : -1 | 0..255     program size limit; -1 = none loaded ("Auto": PC must be 0)
   plus the bus fields of Bus.tla.

   The control store is the constant operator Rom (module MicroRom, GENERATED
   from the working tree at check time): Rom[a + 1] is the word at address a.

   EdgeF is one rising clock edge, in the phase order of the code, because
   that order is observable:
     0. halted: nothing.  wait pending: consume it, nothing else.
     1. commit the pending flag write, then the pending register write, and
        supervise SP / PC after a register commit;
     2. IR reset (MAC1 & MAC2) or IR load from the last bus byte (MAC0 & MAC2):
        0x00 => ErrorStopped, 0x01 => Stopped, 0x2C (RETI) clears the key bits of MISR;
     3. next address from the OLD word, the NEW IR, the NEW flags and the latched
        ALU conditions; the edge flip-flop is cleared iff it is sampled;
     4. bus read at register A of the NEW word (wait if address <= 0xEF), else lbr := 0;
     5. ALU; latch pending register / flag write;
     6. bus write of the ALU output (wait if address <= 0xEF).
   A halting edge still performs phases 3-6.                                  *)
EXTENDS Alu, Signals, Bus, MicroRom

Word(a) == Rom[a + 1]

SpValid(ss, sp) ==
  /\ sp < 240
  /\ CASE ss = 0  -> TRUE
       [] ss = 16 -> sp <= 208 \/ sp >= 223
       [] ss = 32 -> sp <= 192 \/ sp >= 207
       [] ss = 48 -> sp <= 176 \/ sp >= 191
       [] ss = 64 -> sp <= 160 \/ sp >= 175
PcValid(ps, pc) == IF ps >= 0 THEN pc <= ps ELSE pc = 0
Supervised(m) == SpValid(m.ss, m.regs[5]) /\ PcValid(m.ps, m.regs[3])

SetFlags(fr, c, z, n) == (fr \div 8) * 8 + B2N(c) + 2 * B2N(z) + 4 * B2N(n)

CpuFieldsInit ==
  [maddr |-> 0, ir |-> 2, regs |-> [j \in 0..7 |-> 0], prw |-> -1, pfw |-> FALSE,
   pei |-> FALSE, pli |-> FALSE, wait |-> FALSE, st |-> "Running",
   aout |-> 0, ac |-> FALSE, az |-> FALSE, an |-> FALSE, lbr |-> 0, ss |-> 16, ps |-> -1]

\* RawMachine::new()
MachineInit ==
  [maddr |-> 0, ir |-> 2, regs |-> [j \in 0..7 |-> 0], prw |-> -1, pfw |-> FALSE,
   pei |-> FALSE, pli |-> FALSE, wait |-> FALSE, st |-> "Running",
   aout |-> 0, ac |-> FALSE, az |-> FALSE, an |-> FALSE, lbr |-> 0, ss |-> 16, ps |-> -1,
   ram |-> [i \in 0..239 |-> 0], inr |-> [i \in 0..3 |-> 0], outr |-> [i \in 0..1 |-> 0],
   micr |-> 0, misr |-> 0, ucr |-> 0, usr |-> 0, usend |-> 0, urecv |-> 0,
   ten |-> FALSE, td1 |-> 0, td2 |-> 0, td3 |-> 0, bd |-> BoardInit]

IsInstructionDone(m) == MAC3(Word(m.maddr))

EdgeF(m) ==
  IF m.st # "Running" THEN m
  ELSE IF m.wait THEN [m EXCEPT !.wait = FALSE]
  ELSE LET
    w0 == Word(m.maddr)
    \* phase 1
    r1 == IF m.pfw THEN [m.regs EXCEPT ![4] = SetFlags(@, m.ac, m.az, m.an)] ELSE m.regs
    r2 == IF m.prw >= 0 THEN [r1 EXCEPT ![m.prw] = m.aout] ELSE r1
    bad == m.prw >= 0 /\ (~SpValid(m.ss, r2[5]) \/ ~PcValid(m.ps, r2[3]))
    \* phase 2
    irReset == MAC1(w0) /\ MAC2(w0)
    irLoad == ~irReset /\ MAC0(w0) /\ MAC2(w0)
    ir2 == IF irReset THEN 2 ELSE IF irLoad THEN m.lbr ELSE m.ir
    st2 == IF irLoad /\ m.lbr = 0 THEN "ErrorStopped"
           ELSE IF irLoad /\ m.lbr = 1 THEN "Stopped"
           ELSE IF bad THEN "ErrorStopped" ELSE m.st
    misr2 == IF irLoad /\ m.lbr = 44 THEN Clr8(m.misr, 17) ELSE m.misr
    \* phase 3
    f == r2[4]
    next == NextAddr(w0, ir2, f, m.ac, m.az, m.an, m.pei, m.pli)
    pei2 == m.pei /\ ~IntLogic1(w0, m.pei)
    w == Word(next)
    \* phase 4
    sa == SelA(w, ir2)
    sb == SelB(w, ir2)
    addr == r2[sa]
    m1 == [m EXCEPT !.regs = r2, !.misr = misr2]
    lbr2 == IF BUSEN(w) THEN BusRead(m1, addr) ELSE 0
    \* phase 5
    ina == IF MALUIA(w) THEN lbr2 ELSE r2[sa]
    inb == IF MALUIB(w) THEN ConstB(w) ELSE r2[sb]
    o == AluF(ALUS(w), ina, inb, FC(f))
    m2 == [m1 EXCEPT !.maddr = next, !.ir = ir2, !.st = st2, !.pei = pei2, !.lbr = lbr2,
                     !.aout = o.out, !.ac = o.c, !.az = o.z, !.an = o.n,
                     !.prw = IF MRGWE(w) THEN SelW(w, ir2) ELSE -1,
                     !.pfw = MCHFLG(w),
                     !.wait = (BUSEN(w) \/ BUSWR(w)) /\ addr <= 239]
    \* phase 6
    IN IF BUSWR(w) THEN BusWrite(m2, addr, o.out) ELSE m2

\* the interrupt key
KeyIntF(m) == IF KeyEdgeEnabled(m) THEN [m EXCEPT !.pei = TRUE, !.misr = @ | 17]
              ELSE [m EXCEPT !.misr = @ | 1]
\* the continue key
ContinueF(m) == IF m.st = "Stopped" THEN [m EXCEPT !.st = "Running"] ELSE m

\* CPU reset: registers, IR, sequencer, pending writes, pending key interrupt,
\* wait, ALU latch, last bus byte, state; on the bus: outputs, MICR, UCR.
\* Untouched: RAM, inputs, timer, board, MISR, limits, the level line.
CpuResetF(m) ==
  BusCpuReset([m EXCEPT !.maddr = 0, !.ir = 2, !.regs = [j \in 0..7 |-> 0], !.prw = -1,
                        !.pfw = FALSE, !.pei = FALSE, !.wait = FALSE, !.st = "Running",
                        !.aout = 0, !.ac = FALSE, !.az = FALSE, !.an = FALSE, !.lbr = 0])
MasterResetF(m) == BusMasterReset(CpuResetF(m))

\* supervision limits
SetStacksizeF(m, ss) == [m EXCEPT !.ss = ss]
SetProgramsizeF(m, ps) == [m EXCEPT !.ps = ps]

CpuTypeOK(m) ==
  /\ m.maddr \in 0..511 /\ m.ir \in Byte
  /\ \A j \in 0..7 : m.regs[j] \in Byte
  /\ m.prw \in -1..7 /\ m.pfw \in BOOLEAN /\ m.pei \in BOOLEAN /\ m.pli \in BOOLEAN
  /\ m.wait \in BOOLEAN /\ m.st \in {"Running", "Stopped", "ErrorStopped"}
  /\ m.aout \in Byte /\ m.ac \in BOOLEAN /\ m.az \in BOOLEAN /\ m.an \in BOOLEAN
  /\ m.lbr \in Byte /\ m.ss \in {0, 16, 32, 48, 64} /\ m.ps \in -1..255
TypeOK(m) == CpuTypeOK(m) /\ BusTypeOK(m)
=====================================================================
