--------------------------- MODULE Signals ---------------------------
(* Decode of a 28-bit control word and the next-address logic
   (emulator-2a-lib/src/machine/raw/signals.rs).

   word: MAC3..0 | NA4..0 | BUSWR BUSEN | MRGAA3..0 | MRGAB3..0 | MRGWS MRGWE |
         MALUIA MALUIB | MALUS3..0 | MCHFLG                                  *)
EXTENDS Bits

MAC3(w) == Bit(w, 27)
MAC2(w) == Bit(w, 26)
MAC1(w) == Bit(w, 25)
MAC0(w) == Bit(w, 24)
NA4(w) == Bit(w, 23)
NA3(w) == Bit(w, 22)
NA2(w) == Bit(w, 21)
NA1(w) == Bit(w, 20)
NA0(w) == Bit(w, 19)
BUSWR(w) == Bit(w, 18)
BUSEN(w) == Bit(w, 17)
AA(w) == (w \div 2^13) % 16
AB(w) == (w \div 2^9) % 16
MRGWS(w) == Bit(w, 8)
MRGWE(w) == Bit(w, 7)
MALUIA(w) == Bit(w, 6)
MALUIB(w) == Bit(w, 5)
ALUS(w) == (w \div 2) % 16
MCHFLG(w) == Bit(w, 0)

\* register selects: MRGAx3 set => the low two select bits come from the IR
SelA(w, ir) == IF AA(w) >= 8 THEN ir % 4 ELSE AA(w) % 8
SelB(w, ir) == IF AB(w) >= 8 THEN (ir \div 4) % 4 ELSE AB(w) % 8
SelW(w, ir) == IF MRGWS(w) THEN SelB(w, ir) ELSE SelA(w, ir)
\* constant on ALU input B: upper five bits = MRGAB3, lower three = MRGAB2..0
ConstB(w) == (IF AB(w) >= 8 THEN 248 ELSE 0) + (AB(w) % 8)

\* flag register bits
FC(f) == f % 2 = 1
FZ(f) == (f \div 2) % 2 = 1
FN(f) == (f \div 4) % 2 = 1
FI(f) == (f \div 8) % 2 = 1

\* condition multiplexer AM2: selected by IR bits 1..0
AM2(ir, f) == CASE ir % 4 = 0 -> TRUE
                [] ir % 4 = 1 -> FC(f)
                [] ir % 4 = 2 -> FZ(f)
                [] ir % 4 = 3 -> FN(f)
AL3(ir, f) == Bit(ir, 2) # AM2(ir, f)
\* interrupt logic: IL1 = edge flip-flop OR level line; IL2 = IE AND IL1
AL1(pei, pli) == pei \/ pli
AL2(f, pei, pli) == FI(f) /\ AL1(pei, pli)
\* IL3: the edge flip-flop is cleared when it is sampled (MAC = x011, NA0)
IntLogic1(w, pei) == pei /\ MAC1(w) /\ MAC0(w) /\ NA0(w)

AM1(w, ir, f, ac, az, an, pei, pli) ==
  CASE ~MAC1(w) /\ ~MAC0(w)            -> NA0(w)
    [] ~MAC1(w) /\ MAC0(w) /\ ~NA0(w)  -> AL3(ir, f)
    [] ~MAC1(w) /\ MAC0(w) /\ NA0(w)   -> FC(f)
    [] MAC1(w) /\ ~MAC0(w) /\ ~NA0(w)  -> ac
    [] MAC1(w) /\ ~MAC0(w) /\ NA0(w)   -> az
    [] MAC1(w) /\ MAC0(w) /\ ~NA0(w)   -> an
    [] MAC1(w) /\ MAC0(w) /\ NA0(w)    -> AL2(f, pei, pli)

\* next micro address = IR[7:4] . NA4..2 . AM4 AM3 ; MAC2 => dispatch on IR[3:2]
NextAddr(w, ir, f, ac, az, an, pei, pli) ==
  (ir \div 16) * 32 + B2N(NA4(w)) * 16 + B2N(NA3(w)) * 8 + B2N(NA2(w)) * 4
  + 2 * B2N(IF MAC2(w) THEN Bit(ir, 3) ELSE NA1(w))
  + B2N(IF MAC2(w) THEN Bit(ir, 2) ELSE AM1(w, ir, f, ac, az, an, pei, pli))

\* which data-dependent input (if any) the low address bit of word w reads
CondClass(w) ==
  IF MAC2(w) THEN "dispatch"
  ELSE CASE ~MAC1(w) /\ ~MAC0(w)           -> "const"
         [] ~MAC1(w) /\ MAC0(w) /\ ~NA0(w) -> "jrcond"
         [] ~MAC1(w) /\ MAC0(w) /\ NA0(w)  -> "flagC"
         [] MAC1(w) /\ ~MAC0(w) /\ ~NA0(w) -> "aluC"
         [] MAC1(w) /\ ~MAC0(w) /\ NA0(w)  -> "aluZ"
         [] MAC1(w) /\ MAC0(w) /\ ~NA0(w)  -> "aluN"
         [] MAC1(w) /\ MAC0(w) /\ NA0(w)   -> "int"
=====================================================================
