----------------------------- MODULE Mrasm -----------------------------
(* The mrasm assembly language at CHARACTER level (DESIGN.md Appendix C), read
   declaratively from the documented language (header line, one label or
   instruction per line, optional comment, case-insensitive mnemonics, registers,
   four operand forms, byte / word constants in decimal, 0x, 0b with leading
   zeros, at most 40 label definitions, no undefined reference) - numbers by
   value, tokens maximal - never from pest's ordered-choice mechanics.

   Text = sequence of code points.  Verdict(text) \in {"accept", "reject",
   "unspecified"}; ParseText(text).ast is the program for accepted text: one node
   per line after the header.  "unspecified" marks the zones the documentation
   does not settle (listed at UnspecifiedZones); there only "no crash" is checked.

   Node shapes (the harness projects the real AST to the same JSON):
     [t |-> "empty", c |-> comment]            comment = code points, or <<-1>> for "no comment"
     [t |-> "label", label |-> cps, c |-> ..]
     [t |-> "ins", m |-> mnemonic (upper case cps), ops |-> <<operand, ...>>, c |-> ..]
   operand: [k |-> "r", r |-> 0..3] | [k |-> "mr", r] | [k |-> "di", r] | [k |-> "ddi", r]
          | [k |-> "mc", c |-> const] | [k |-> "c", c |-> const] | [k |-> "n", n |-> number] | [k |-> "l", l |-> cps]
   const:   [n |-> 0..255] | [l |-> cps]                                        *)
EXTENDS Naturals, Integers, Sequences, FiniteSets, TLC, SequencesExt

Blank == {32, 9}
Digit == 48..57
UpperA == 65..90
LowerA == 97..122
Alpha == UpperA \cup LowerA
WordCh == Digit \cup Alpha \cup {95}
HexDigit == Digit \cup (65..70) \cup (97..102)

At(s, i) == IF i >= 1 /\ i <= Len(s) THEN s[i] ELSE -1
Sub(s, i, j) == IF j > i THEN SubSeq(s, i, j - 1) ELSE <<>>          \* s[i .. j-1]
Up1(c) == IF c \in LowerA THEN c - 32 ELSE c
Lo1(c) == IF c \in UpperA THEN c + 32 ELSE c
Upper(w) == [k \in 1..Len(w) |-> Up1(w[k])]
Lower(w) == [k \in 1..Len(w) |-> Lo1(w[k])]

\* RunEnd(s, i, S): the first position k >= i with s[k] \notin S (Len(s) + 1 if there is none).  The k is unique, so the CHOOSE is
\* well defined; TLC finds it in one ascending scan (a RECURSIVE definition costs TLC time quadratic in the length of the run).
RunEnd(s, i, S) ==
  IF i > Len(s) THEN i
  ELSE CHOOSE k \in i..(Len(s) + 1) : (k = Len(s) + 1 \/ s[k] \notin S) /\ \A j \in i..(k - 1) : s[j] \in S
SkipBl(s, i) == RunEnd(s, i, Blank)
WordEnd(s, i) == RunEnd(s, i, WordCh)
AlphaEnd(s, i) == RunEnd(s, i, Alpha)

\* ---- numbers: by value, any number of leading zeros --------------------------------------------
Big == 100000
DigVal(c) == IF c \in Digit THEN c - 48 ELSE IF c \in 65..70 THEN c - 55 ELSE c - 87
RECURSIVE ValRec(_, _, _)
ValRec(d, base, acc) == IF d = <<>> THEN acc
                        ELSE LET a == acc * base + DigVal(Head(d)) IN ValRec(Tail(d), base, IF a > Big THEN Big ELSE a)
\* value of a digit string, saturated at Big: leading zeros are skipped in one scan; more than 17 significant digits exceed Big in every base
ValOf(d, base, acc) ==
  LET z == RunEnd(d, 1, {48})
      r == Sub(d, z, Len(d) + 1) IN
  IF Len(r) > 17 THEN Big ELSE ValRec(r, base, acc)
AllIn(d, S) == \A k \in 1..Len(d) : d[k] \in S
NotNumber == -1
RejNumber == -2
UnsNumber == -3
\* tok: a maximal run of word characters
Number(tok, maxv) ==
  IF tok = <<>> \/ tok[1] \notin Digit THEN NotNumber
  ELSE IF Len(tok) >= 2 /\ tok[1] = 48 /\ tok[2] \in {88, 66} THEN UnsNumber                 \* 0X / 0B
  ELSE IF Len(tok) >= 2 /\ tok[1] = 48 /\ tok[2] = 120 THEN                                   \* 0x
         LET d == Sub(tok, 3, Len(tok) + 1) IN
         IF d = <<>> \/ ~AllIn(d, HexDigit) THEN RejNumber
         ELSE LET v == ValOf(d, 16, 0) IN IF v > maxv THEN RejNumber ELSE v
  ELSE IF Len(tok) >= 2 /\ tok[1] = 48 /\ tok[2] = 98 THEN                                    \* 0b
         LET d == Sub(tok, 3, Len(tok) + 1) IN
         IF d = <<>> \/ ~AllIn(d, {48, 49}) THEN RejNumber
         ELSE LET v == ValOf(d, 2, 0) IN IF v > maxv THEN RejNumber ELSE v
  ELSE IF ~AllIn(tok, Digit) THEN RejNumber
  ELSE LET v == ValOf(tok, 10, 0) IN IF v > maxv THEN RejNumber ELSE v
DecNumber(tok, maxv) == IF tok # <<>> /\ AllIn(tok, Digit) /\ ValOf(tok, 10, 0) <= maxv THEN ValOf(tok, 10, 0) ELSE RejNumber

\* ---- registers and identifiers -------------------------------------------------------------------
\* 1 register, 0 no register, -3 unspecified (lower-case spellings of PC)
IsReg(tok) ==
  IF Len(tok) = 2 /\ tok[1] \in {82, 114} /\ tok[2] \in 48..51 THEN 1
  ELSE IF tok = <<80, 67>> THEN 1
  ELSE 0                                   \* "pc" in lower / mixed case is no register (and, beginning with PC, no identifier either)
RegNum(tok) == IF tok = <<80, 67>> THEN 3 ELSE tok[2] - 48
StartsWith(w, p) == Len(w) >= Len(p) /\ Sub(w, 1, Len(p) + 1) = p
\* "ok" identifier / "rej" / "uns" (identifiers beginning with R, PC, SP in any case)
IdentKind(tok) ==
  IF tok = <<>> \/ tok[1] \in Digit THEN "rej"
  ELSE LET lw == Lower(tok) IN
       \* an identifier must not begin like a register name: R.., PC.., SP.. in any case are no identifiers
       IF StartsWith(lw, <<114>>) \/ StartsWith(lw, <<112, 99>>) \/ StartsWith(lw, <<115, 112>>) THEN "rej" ELSE "ok"

\* ---- results: [k |-> "ok" | "rej" | "uns", i |-> next position, v |-> value, refs |-> referenced identifiers] ----
Ok(i, v, refs) == [k |-> "ok", i |-> i, v |-> v, refs |-> refs]
Rej == [k |-> "rej", i |-> 0, v |-> 0, refs |-> <<>>]
Uns == [k |-> "uns", i |-> 0, v |-> 0, refs |-> <<>>]

\* a byte constant or an identifier
Const(s, i) ==
  LET j == WordEnd(s, i)  tok == Sub(s, i, j)  n == Number(tok, 255) IN
  IF tok = <<>> THEN Rej
  ELSE IF n = UnsNumber THEN Uns
  ELSE IF n = RejNumber THEN Rej
  ELSE IF n >= 0 THEN Ok(j, [n |-> n], <<>>)
  ELSE IF IsReg(tok) = 1 THEN Rej
  ELSE IF IsReg(tok) = -3 THEN Uns
  ELSE IF IdentKind(tok) = "rej" THEN Rej
  ELSE IF IdentKind(tok) = "uns" THEN Uns
  ELSE Ok(j, [l |-> tok], <<Lower(tok)>>)

RegP(s, i) ==
  LET j == WordEnd(s, i)  tok == Sub(s, i, j) IN
  IF tok = <<>> THEN Rej
  ELSE IF IsReg(tok) = 1 THEN Ok(j, [k |-> "r", r |-> RegNum(tok)], <<>>)
  ELSE IF IsReg(tok) = -3 THEN Uns
  ELSE Rej

\* kinds: subset of {"r", "m", "di", "ddi", "c"};  m = (const) | (register)
Operand(s, i, kinds) ==
  IF At(s, i) = 40 THEN
    IF At(s, i + 1) \in Blank THEN Uns
    ELSE IF At(s, i + 1) = 40 THEN                                        \* ((R+))
      LET r == RegP(s, i + 2) IN
      IF r.k # "ok" THEN r
      ELSE IF At(s, r.i) = 43 /\ At(s, r.i + 1) = 41 /\ At(s, r.i + 2) = 41
           THEN IF "ddi" \in kinds THEN Ok(r.i + 3, [k |-> "ddi", r |-> r.v.r], <<>>) ELSE Rej
           ELSE IF At(s, r.i) \in Blank THEN Uns ELSE Rej
    ELSE
      LET j == WordEnd(s, i + 1)  tok == Sub(s, i + 1, j) IN
      IF tok = <<>> THEN Rej
      ELSE IF At(s, j) \in Blank THEN Uns
      ELSE IF IsReg(tok) = -3 THEN Uns
      ELSE IF IsReg(tok) = 1 THEN
             IF At(s, j) = 43 /\ At(s, j + 1) = 41
             THEN IF "di" \in kinds THEN Ok(j + 2, [k |-> "di", r |-> RegNum(tok)], <<>>) ELSE Rej
             ELSE IF At(s, j) = 41
             THEN IF "m" \in kinds THEN Ok(j + 1, [k |-> "mr", r |-> RegNum(tok)], <<>>) ELSE Rej
             ELSE Rej
      ELSE LET c == Const(s, i + 1) IN
           IF c.k # "ok" THEN c
           ELSE IF At(s, c.i) # 41 THEN Rej
           ELSE IF "m" \in kinds THEN Ok(c.i + 1, [k |-> "mc", c |-> c.v], c.refs) ELSE Rej
  ELSE
    LET j == WordEnd(s, i)  tok == Sub(s, i, j) IN
    IF tok = <<>> THEN Rej
    ELSE IF IsReg(tok) = -3 THEN Uns
    ELSE IF IsReg(tok) = 1 THEN (IF "r" \in kinds THEN Ok(j, [k |-> "r", r |-> RegNum(tok)], <<>>) ELSE Rej)
    ELSE IF "c" \notin kinds THEN Rej
    ELSE LET c == Const(s, i) IN IF c.k # "ok" THEN c ELSE Ok(c.i, [k |-> "c", c |-> c.v], c.refs)

SRC == {"r", "m", "di", "ddi", "c"}
DST == {"r", "m", "di", "ddi"}

\* separator between two parameters: "," then any blanks; blanks before the comma are unspecified
SepPP(s, i) ==
  IF At(s, i) \in Blank THEN (IF At(s, SkipBl(s, i)) = 44 THEN Uns ELSE Rej)
  ELSE IF At(s, i) # 44 THEN Rej
  ELSE Ok(SkipBl(s, i + 1), 0, <<>>)

\* ---- mnemonics (generated tables) -----------------------------------------------------------------------
NoOp == {<<80, 85, 83, 72, 70>>, <<80, 79, 80, 70>>, <<82, 69, 84>>, <<82, 69, 84, 73>>, <<83, 84, 79, 80>>, <<78, 79, 80>>, <<69, 73>>, <<68, 73>>}
Reg1 == {<<67, 76, 82>>, <<73, 78, 67>>, <<78, 69, 71>>, <<67, 79, 77>>, <<84, 83, 84>>, <<76, 83, 82>>, <<65, 83, 82>>, <<76, 83, 76>>, <<82, 82, 67>>, <<82, 76, 67>>, <<80, 85, 83, 72>>, <<80, 79, 80>>}
Reg2 == {<<65, 68, 68>>, <<65, 68, 67>>, <<83, 85, 66>>, <<77, 85, 76>>, <<68, 73, 86>>, <<65, 78, 68>>, <<79, 82>>, <<88, 79, 82>>}
Src1 == {<<68, 69, 67>>, <<76, 68, 83, 80>>, <<76, 68, 70, 82>>}
DstSrc == {<<77, 79, 86>>, <<67, 77, 80>>, <<66, 73, 84, 84>>, <<66, 73, 84, 83>>, <<66, 73, 84, 67>>}
Jump == {<<74, 77, 80>>, <<74, 67, 83>>, <<74, 67, 67>>, <<74, 90, 83>>, <<74, 90, 67>>, <<74, 78, 83>>, <<74, 78, 67>>, <<74, 82>>, <<67, 65, 76, 76>>}
MLD == <<76, 68>>
MST == <<83, 84>>
Mnemonics == NoOp \cup Reg1 \cup Reg2 \cup Src1 \cup DstSrc \cup Jump \cup {MLD, MST}
DORG == <<46, 79, 82, 71>>
DBYTE == <<46, 66, 89, 84, 69>>
DDB == <<46, 68, 66>>
DDW == <<46, 68, 87>>
DEQU == <<46, 69, 81, 85>>
DSTACK == <<42, 83, 84, 65, 67, 75, 83, 73, 90, 69>>
DPROG == <<42, 80, 82, 79, 71, 82, 65, 77, 83, 73, 90, 69>>
WNOSET == <<78, 79, 83, 69, 84>>
WAUTO == <<65, 85, 84, 79>>

M_PUSHF == <<80, 85, 83, 72, 70>>
M_POPF == <<80, 79, 80, 70>>
M_RET == <<82, 69, 84>>
M_RETI == <<82, 69, 84, 73>>
M_STOP == <<83, 84, 79, 80>>
M_NOP == <<78, 79, 80>>
M_EI == <<69, 73>>
M_DI == <<68, 73>>
M_CLR == <<67, 76, 82>>
M_INC == <<73, 78, 67>>
M_NEG == <<78, 69, 71>>
M_COM == <<67, 79, 77>>
M_TST == <<84, 83, 84>>
M_LSR == <<76, 83, 82>>
M_ASR == <<65, 83, 82>>
M_LSL == <<76, 83, 76>>
M_RRC == <<82, 82, 67>>
M_RLC == <<82, 76, 67>>
M_PUSH == <<80, 85, 83, 72>>
M_POP == <<80, 79, 80>>
M_ADD == <<65, 68, 68>>
M_ADC == <<65, 68, 67>>
M_SUB == <<83, 85, 66>>
M_MUL == <<77, 85, 76>>
M_DIV == <<68, 73, 86>>
M_AND == <<65, 78, 68>>
M_OR == <<79, 82>>
M_XOR == <<88, 79, 82>>
M_DEC == <<68, 69, 67>>
M_LDSP == <<76, 68, 83, 80>>
M_LDFR == <<76, 68, 70, 82>>
M_MOV == <<77, 79, 86>>
M_CMP == <<67, 77, 80>>
M_BITT == <<66, 73, 84, 84>>
M_BITS == <<66, 73, 84, 83>>
M_BITC == <<66, 73, 84, 67>>
M_JMP == <<74, 77, 80>>
M_JCS == <<74, 67, 83>>
M_JCC == <<74, 67, 67>>
M_JZS == <<74, 90, 83>>
M_JZC == <<74, 90, 67>>
M_JNS == <<74, 78, 83>>
M_JNC == <<74, 78, 67>>
M_JR == <<74, 82>>
M_CALL == <<67, 65, 76, 76>>
M_LD == <<76, 68>>
M_ST == <<83, 84>>
NoComment == <<-1>>
\* comment text after the first ";" with blanks and ";" trimmed at both ends
TrimSet == {32, 9, 59}
\* (index based: linear in the length of the comment)
TrimL(w, i) == RunEnd(w, i, TrimSet)
\* the last position k <= j with w[k] \notin TrimSet (0 if there is none); unique
TrimR(w, j) == IF j < 1 THEN j
               ELSE CHOOSE k \in 0..j : /\ k = 0 \/ w[k] \notin TrimSet
                                        /\ k = j \/ (w[k + 1] \in TrimSet /\ \A q \in (k + 1)..j : w[q] \in TrimSet)
\* the text of s from position a to the end of the line, trimmed at both ends (index based: only s itself is ever indexed)
TrimAt(s, a) == LET i == TrimL(s, a)
                    j == TrimR(s, Len(s)) IN
                IF i > j THEN <<>> ELSE Sub(s, i, j + 1)
Trim(w) == TrimAt(w, 1)

\* the tail of a line after the label / instruction: blanks, then nothing or a comment
TailOf(s, i) ==
  LET j == SkipBl(s, i) IN
  IF j > Len(s) THEN Ok(j, NoComment, <<>>)
  ELSE IF At(s, j) = 59 THEN Ok(Len(s) + 1, TrimAt(s, j + 1), <<>>)
  ELSE Rej

Ins(m, ops) == [t |-> "ins", m |-> m, ops |-> ops]

\* list of numbers separated by commas (.DB / .DW)
RECURSIVE NumList(_, _, _, _)
NumList(s, k, maxv, acc) ==
  LET e == WordEnd(s, k)  tok == Sub(s, k, e)  n == Number(tok, maxv) IN
  IF n = UnsNumber THEN Uns
  ELSE IF n < 0 THEN Rej
  ELSE IF At(s, e) = 44 THEN NumList(s, SkipBl(s, e + 1), maxv, Append(acc, [k |-> "n", n |-> n]))
  ELSE IF At(s, e) \in Blank /\ At(s, SkipBl(s, e)) = 44 THEN Uns          \* blanks before a comma
  ELSE Ok(e, Append(acc, [k |-> "n", n |-> n]), <<>>)

\* directive starting at i (s[i] is "." or "*")
Directive(s, i) ==
  LET j == AlphaEnd(s, i + 1)
      d == <<s[i]>> \o Upper(Sub(s, i + 1, j))
      k == SkipBl(s, j) IN
  IF k = j THEN Rej
  ELSE IF d \in {DORG, DBYTE} THEN
         LET e == WordEnd(s, k)  n == Number(Sub(s, k, e), 255) IN
         IF n = UnsNumber THEN Uns ELSE IF n < 0 THEN Rej ELSE Ok(e, Ins(d, <<[k |-> "n", n |-> n]>>), <<>>)
  ELSE IF d = DDB THEN LET r == NumList(s, k, 255, <<>>) IN IF r.k # "ok" THEN r ELSE Ok(r.i, Ins(d, r.v), <<>>)
  ELSE IF d = DDW THEN LET r == NumList(s, k, 65535, <<>>) IN IF r.k # "ok" THEN r ELSE Ok(r.i, Ins(d, r.v), <<>>)
  ELSE IF d = DEQU THEN
         LET e == WordEnd(s, k)  tok == Sub(s, k, e)  k2 == SkipBl(s, e)
             e2 == WordEnd(s, k2)  n == DecNumber(Sub(s, k2, e2), 255) IN
         IF IdentKind(tok) = "rej" THEN Rej
         ELSE IF k2 = e THEN Rej
         ELSE IF n < 0 THEN Rej
         ELSE IF IdentKind(tok) = "uns" THEN Uns
         ELSE [k |-> "ok", i |-> e2, v |-> Ins(d, <<[k |-> "l", l |-> tok], [k |-> "n", n |-> n]>>), refs |-> <<>>, def |-> Lower(tok)]
  ELSE IF d = DSTACK THEN
         LET e == WordEnd(s, k)  tok == Sub(s, k, e) IN
         IF tok \in {<<48>>, <<49, 54>>, <<51, 50>>, <<52, 56>>, <<54, 52>>} THEN Ok(e, Ins(d, <<[k |-> "n", n |-> ValOf(tok, 10, 0)]>>), <<>>)
         ELSE IF Upper(tok) = WNOSET THEN Ok(e, Ins(d, <<[k |-> "n", n |-> -1]>>), <<>>)
         ELSE Rej
  ELSE IF d = DPROG THEN
         LET e == WordEnd(s, k)  tok == Sub(s, k, e) IN
         IF Upper(tok) = WAUTO THEN Ok(e, Ins(d, <<[k |-> "n", n |-> -1]>>), <<>>)
         ELSE IF Upper(tok) = WNOSET THEN Ok(e, Ins(d, <<[k |-> "n", n |-> -2]>>), <<>>)
         ELSE IF DecNumber(tok, 255) >= 0 THEN Ok(e, Ins(d, <<[k |-> "n", n |-> DecNumber(tok, 255)]>>), <<>>)
         ELSE Rej
  ELSE Rej

\* instruction with mnemonic m (upper case), operands starting after at least one blank at j
Instr(s, m, j) ==
  IF m \in NoOp THEN Ok(j, Ins(m, <<>>), <<>>)
  ELSE
  LET k == SkipBl(s, j) IN
  IF k = j THEN Rej
  ELSE IF m \in Reg1 THEN LET a == RegP(s, k) IN IF a.k # "ok" THEN a ELSE Ok(a.i, Ins(m, <<a.v>>), <<>>)
  ELSE IF m \in Reg2 THEN
         LET a == RegP(s, k) IN IF a.k # "ok" THEN a ELSE
         LET p == SepPP(s, a.i) IN IF p.k # "ok" THEN p ELSE
         LET b == RegP(s, p.i) IN IF b.k # "ok" THEN b ELSE Ok(b.i, Ins(m, <<a.v, b.v>>), <<>>)
  ELSE IF m \in Src1 THEN LET a == Operand(s, k, SRC) IN IF a.k # "ok" THEN a ELSE Ok(a.i, Ins(m, <<a.v>>), a.refs)
  ELSE IF m \in DstSrc THEN
         LET a == Operand(s, k, DST) IN IF a.k # "ok" THEN a ELSE
         LET p == SepPP(s, a.i) IN IF p.k # "ok" THEN p ELSE
         LET b == Operand(s, p.i, SRC) IN IF b.k # "ok" THEN b ELSE Ok(b.i, Ins(m, <<a.v, b.v>>), a.refs \o b.refs)
  ELSE IF m = MLD THEN
         LET a == RegP(s, k) IN IF a.k # "ok" THEN a ELSE
         LET p == SepPP(s, a.i) IN IF p.k # "ok" THEN p ELSE
         LET b == Operand(s, p.i, {"m", "c"}) IN IF b.k # "ok" THEN b ELSE Ok(b.i, Ins(m, <<a.v, b.v>>), b.refs)
  ELSE IF m = MST THEN
         LET a == Operand(s, k, {"m"}) IN IF a.k # "ok" THEN a ELSE
         LET p == SepPP(s, a.i) IN IF p.k # "ok" THEN p ELSE
         LET b == RegP(s, p.i) IN IF b.k # "ok" THEN b ELSE Ok(b.i, Ins(m, <<a.v, b.v>>), a.refs)
  ELSE \* jumps / call: an identifier
         LET e == WordEnd(s, k)  tok == Sub(s, k, e) IN
         IF tok = <<>> \/ tok[1] \in Digit THEN Rej
         ELSE IF IsReg(tok) = 1 THEN Rej
         ELSE IF IdentKind(tok) = "rej" THEN Rej
         ELSE Ok(e, Ins(m, <<[k |-> "l", l |-> tok]>>), <<Lower(tok)>>)

\* one line (without its line terminator): [k, node, defs, refs]
LineRes(k, node, defs, refs) == [k |-> k, node |-> node, defs |-> defs, refs |-> refs]
ParseLine(s) ==
  LET i == SkipBl(s, 1) IN
  IF i > Len(s) \/ At(s, i) = 59 THEN
    LET t == TailOf(s, i) IN LineRes("ok", [t |-> "empty", c |-> t.v], <<>>, <<>>)
  ELSE
    LET body ==
      IF At(s, i) \in {46, 42} THEN Directive(s, i)
      ELSE LET j == WordEnd(s, i)  tok == Sub(s, i, j) IN
           IF tok = <<>> THEN Rej
           ELSE IF At(s, j) = 58 THEN                                              \* label definition
                  IF Upper(tok) \in Mnemonics THEN Uns
                  ELSE IF IdentKind(tok) = "rej" THEN Rej
                  ELSE IF IdentKind(tok) = "uns" THEN Uns
                  ELSE [k |-> "ok", i |-> j + 1, v |-> [t |-> "label", label |-> tok], refs |-> <<>>, def |-> Lower(tok)]
           ELSE IF Upper(tok) \in Mnemonics THEN Instr(s, Upper(tok), j)
           ELSE Rej
    IN
    IF body.k # "ok" THEN LineRes(body.k, 0, <<>>, <<>>)
    ELSE LET t == TailOf(s, body.i) IN
         IF t.k # "ok" THEN LineRes("rej", 0, <<>>, <<>>)
         ELSE LineRes("ok", body.v @@ [c |-> t.v],
                      IF "def" \in DOMAIN body THEN <<body.def>> ELSE <<>>, body.refs)

\* ---- whole text -----------------------------------------------------------------------------------------
\* lines are separated by LF or CRLF; a lone CR is unspecified
\* (index based: the sorted positions of the LFs cut the text; a CR directly before an LF belongs to the separator)
SplitLines(t) ==
  LET lf == TLCEval(SetToSortSeq({k \in 1..Len(t) : t[k] = 10}, LAMBDA a, b : a < b))
      m == Len(lf)
      start(i) == IF i = 1 THEN 1 ELSE lf[i - 1] + 1
      stop(i) == IF i > m THEN Len(t) + 1
                 ELSE IF lf[i] > start(i) /\ t[lf[i] - 1] = 13 THEN lf[i] - 1 ELSE lf[i]      \* exclusive end
  IN TLCEval([i \in 1..(m + 1) |-> Sub(t, start(i), stop(i))])
HasLoneCR(t) == \E k \in 1..Len(t) : t[k] = 13 /\ At(t, k + 1) # 10

Shebang == <<35, 33, 32, 109, 114, 97, 115, 109>>
\* header: "#! mrasm", optionally one blank, optionally a comment
ParseHeader(h) ==
  IF ~StartsWith(h, Shebang) THEN [k |-> "rej", c |-> NoComment]
  ELSE LET p == IF At(h, 9) \in Blank THEN 10 ELSE 9 IN          \* position after the shebang and at most one blank
       IF At(h, p) \in Blank THEN [k |-> "uns", c |-> NoComment]
       ELSE IF p > Len(h) THEN [k |-> "ok", c |-> NoComment]
       ELSE IF h[p] = 59 THEN [k |-> "ok", c |-> TrimAt(h, p + 1)]
       ELSE [k |-> "rej", c |-> NoComment]

SeqToSet(q) == {q[k] : k \in 1..Len(q)}

ParseText(t) ==
  IF HasLoneCR(t) THEN [k |-> "unspecified"]
  ELSE
  LET parts0 == SplitLines(t)
      \* a text that ends with the header line still has one (empty) line after it
      parts == IF Len(parts0) = 1 THEN Append(parts0, <<>>) ELSE parts0
      hd == ParseHeader(parts[1])
      ls == TLCEval([n \in 1..(Len(parts) - 1) |-> ParseLine(parts[n + 1])])
      anyRej == \E n \in 1..Len(ls) : ls[n].k = "rej"
      anyUns == \E n \in 1..Len(ls) : ls[n].k = "uns"
      \* a line defines at most one name: the definitions in text order; the references only matter as a set
      defLines == SelectSeq(ls, LAMBDA x : x.defs # <<>>)
      defs == [n \in 1..Len(defLines) |-> defLines[n].defs[1]]
      refset == UNION {SeqToSet(ls[n].refs) : n \in 1..Len(ls)}
  IN
  IF hd.k = "rej" THEN [k |-> "reject", why |-> "header"]
  ELSE IF hd.k = "uns" THEN [k |-> "unspecified"]
  ELSE IF anyRej THEN [k |-> "reject", why |-> "syntax"]
  ELSE IF anyUns THEN [k |-> "unspecified"]
  ELSE IF Len(defs) > 40 THEN [k |-> "reject", why |-> "toomany"]                   \* counts DEFINITIONS (also repeated names)
  ELSE IF Cardinality(SeqToSet(defs)) # Len(defs) THEN [k |-> "unspecified"]        \* duplicate definitions
  ELSE IF \E x \in refset : x \notin SeqToSet(defs) THEN [k |-> "reject", why |-> "undefined"]
  ELSE [k |-> "accept", hc |-> hd.c, ast |-> [n \in 1..Len(ls) |-> ls[n].node]]
Verdict(t) == ParseText(t).k

UnspecifiedZones == "a label spelled like a mnemonic; duplicate definitions; blanks inside parentheses or before a comma; more than one blank after the header; 0X / 0B; a lone CR"
=====================================================================
