------------------------------ MODULE Gen ------------------------------
(* Generators of machine states used by several model-checking configurations. *)
EXTENDS Machine

\* ---- generator of boundary states -----------------------------------------------------
BaseRam == [i \in 0..239 |-> (i * 37 + 11) % 256]
\* a boundary state: fetch word, PC increment pending, own opcode already on the bus
Mk(pc, bytes, r0, r1, r2, fr, sp, pend, ss, ps, cells) ==
  LET ram0 == [i \in 0..239 |-> IF i >= pc /\ i < pc + Len(bytes) THEN bytes[i - pc + 1] ELSE BaseRam[i]]
      ram == [i \in 0..239 |-> IF i \in DOMAIN cells THEN cells[i] ELSE ram0[i]]
      m0 == [MachineInit EXCEPT !.ram = ram, !.inr = [j \in 0..3 |-> 10 + 3 * j], !.micr = 1,
                                !.misr = IF pend THEN 17 ELSE 0, !.ss = ss, !.ps = ps]
  IN [m0 EXCEPT !.maddr = 6, !.ir = 2,
                !.regs = [j \in 0..7 |-> CASE j = 0 -> r0 [] j = 1 -> r1 [] j = 2 -> r2 [] j = 3 -> pc
                                           [] j = 4 -> fr [] j = 5 -> sp [] j = 6 -> 90 [] j = 7 -> 165],
                !.prw = 3, !.aout = (pc + 1) % 256, !.pei = pend, !.wait = (pc <= 239),
                !.lbr = BusRead(m0, pc)]

NoCells == [i \in {} |-> 0]

\* test programs as byte images (the harness loads the same bytes into the real machine)
\* P1: LDSP 0xEF; loop: LD R0,(0xFC); ADD R1,R0; PUSH R1; POP R2; ST (0xFF),R2; ST (0x80),R1; INC R1; JR loop
ProgP1 == <<251, 239, 64, 255, 252, 16, 97, 17, 22, 242, 31, 255, 241, 31, 128, 69, 32, 241>>
\* PInt: JR main ; (2:) isr: PUSH R0; LD R0,(0x90); INC R0; ST (0x90),R0; POP R0; RETI ;
\*       main: LDSP 0xEF; MOV (0xF9),1; EI; LD R1,7; LD R2,9; l: MUL R1,R2; DIV R1,R2; PUSH R1; POP R1; CALL sub; DEC R2; JZC l; DI; STOP ; sub: INC R0; RET
ProgInt == <<32, 10, 16, 255, 144, 16, 68, 240, 31, 144, 20, 44, 251, 239, 64, 251, 1, 31, 249, 8, 251, 7, 17, 251, 9, 18, 185, 201, 17, 21, 40, 37, 82, 38, 247, 12, 1, 68, 23>>
=====================================================================
