---------------------------- MODULE SupCore ----------------------------
(* C05, unbounded: the supervision invariant is INDUCTIVE for an abstraction of
   the clock edge that keeps only what supervision is about - the stack pointer,
   the program counter, the machine state, the limits, the pending register write
   and the wait flag - and leaves everything the micro-program decides (which
   register is written next, with which value, whether this edge loads the
   instruction register and with which byte) to a nondeterministic environment.
   So the result holds for EVERY control store and EVERY program.

   Checked with Apalache:   Init => IndInv   and   IndInv /\ Next => IndInv'.
   That Micro.tla's EdgeF is an instance of CoreEdge is checked by TLC on every
   edge explored in MC_Sup (invariant AbstractsToCore there).                    *)
EXTENDS Integers

VARIABLES
  \* @type: Int;
  sp,
  \* @type: Int;
  pc,
  \* @type: Str;
  st,
  \* @type: Int;
  ss,
  \* @type: Int;
  ps,
  \* @type: Int;
  prw,
  \* @type: Int;
  aout,
  \* @type: Bool;
  wait,
  \* @type: Bool;
  taint

SpValid(s, p) ==
  /\ p < 240
  /\ \/ s = 0
     \/ s = 16 /\ (p <= 208 \/ p >= 223)
     \/ s = 32 /\ (p <= 192 \/ p >= 207)
     \/ s = 48 /\ (p <= 176 \/ p >= 191)
     \/ s = 64 /\ (p <= 160 \/ p >= 175)
PcValid(l, p) == IF l >= 0 THEN p <= l ELSE p = 0
Supervised == SpValid(ss, sp) /\ PcValid(ps, pc)

Sizes == {0, 16, 32, 48, 64}
TypeOK ==
  /\ sp \in 0..255 /\ pc \in 0..255 /\ st \in {"Running", "Stopped", "ErrorStopped"}
  /\ ss \in Sizes /\ ps \in -1..255 /\ prw \in -1..7 /\ aout \in 0..255 /\ wait \in BOOLEAN /\ taint \in BOOLEAN

Init == /\ sp = 0 /\ pc = 0 /\ st = "Running" /\ ss = 16 /\ ps = -1 /\ prw = -1 /\ aout = 0 /\ wait = FALSE /\ taint = FALSE

\* one clock edge; load / byte / the next pending write are chosen by the environment (= the micro-program and RAM)
CoreEdge(load, byte, nprw, naout, nwait) ==
  IF st # "Running" THEN UNCHANGED <<sp, pc, st, ss, ps, prw, aout, wait, taint>>
  ELSE IF wait THEN wait' = FALSE /\ UNCHANGED <<sp, pc, st, ss, ps, prw, aout, taint>>
  ELSE LET r5 == IF prw = 5 THEN aout ELSE sp
           r3 == IF prw = 3 THEN aout ELSE pc
           bad == prw >= 0 /\ (~SpValid(ss, r5) \/ ~PcValid(ps, r3))
       IN /\ sp' = r5 /\ pc' = r3
          /\ st' = IF load /\ byte = 0 THEN "ErrorStopped"
                   ELSE IF load /\ byte = 1 THEN "Stopped"
                   ELSE IF bad THEN "ErrorStopped" ELSE "Running"
          /\ taint' = (taint \/ (load /\ byte = 1 /\ bad))
          /\ prw' = nprw /\ aout' = naout /\ wait' = nwait
          /\ UNCHANGED <<ss, ps>>
Continue == /\ st' = (IF st = "Stopped" THEN "Running" ELSE st) /\ UNCHANGED <<sp, pc, ss, ps, prw, aout, wait, taint>>
Reset == /\ sp' = 0 /\ pc' = 0 /\ st' = "Running" /\ prw' = -1 /\ aout' = 0 /\ wait' = FALSE /\ taint' = FALSE /\ UNCHANGED <<ss, ps>>
\* program load: reset + new limits (NOSET keeps the old one; AUTO = image length >= 0)
Load(nss, nps) == /\ sp' = 0 /\ pc' = 0 /\ st' = "Running" /\ prw' = -1 /\ aout' = 0 /\ wait' = FALSE /\ taint' = FALSE
                  /\ ss' = nss /\ ps' = nps

Next ==
  \/ \E load \in BOOLEAN, byte \in 0..255, nprw \in -1..7, naout \in 0..255, nwait \in BOOLEAN : CoreEdge(load, byte, nprw, naout, nwait)
  \/ Continue
  \/ Reset
  \/ \E nss \in Sizes, nps \in 0..255 : Load(nss, nps)
  \/ \E nss \in Sizes : Load(nss, ps)

\* the inductive invariant: also regular stops are supervised (they can be continued), unless tainted
IndInv == TypeOK /\ ((st \in {"Running", "Stopped"} /\ ~taint) => Supervised)
\* the statement of C05
SupInv == (st = "Running" /\ ~taint) => Supervised
=====================================================================
