----------------------------- MODULE Alu -----------------------------
(* The ALU of the Minirechner 2a as DOCUMENTED (doc comments of AluSelect and
   property C08), not as implemented:

     0 ADDH  A+B, carry-out = carry-in OR overflow   ("keep the carry or set it")
     1 A     pass A, carry cleared
     2 NOR   NOT (A OR B), carry cleared
     3 ZERO  0, carry cleared
     4 ADD   A+B, carry = overflow
     5 ADDS  A+B+1, carry = NOT overflow          (addition for subtraction)
     6 ADC   A+B+cin, carry = overflow
     7 ADCS  A+B+NOT cin, carry = NOT overflow
     8 LSR   A>>1, bit7 := 0        carry := bit0
     9 RR    A>>1, bit7 := bit0     carry := bit0
    10 RRC   A>>1, bit7 := cin      carry := bit0
    11 ASR   A>>1, bit7 := bit7     carry := bit0
    12 B     pass B, carry cleared
    13 SETC  pass B, carry set
    14 BH    pass B, carry held
    15 INVC  pass B, carry inverted
   zero = (result = 0), negative = bit 7 of the result.                    *)
EXTENDS Bits

Res(out, c) == [out |-> out, c |-> c, z |-> out = 0, n |-> out >= 128]

AluF(sel, a, b, cin) ==
  LET ci == B2N(cin) IN
  CASE sel = 0  -> Res((a + b) % 256, cin \/ a + b > 255)
    [] sel = 1  -> Res(a, FALSE)
    [] sel = 2  -> Res(255 - (a | b), FALSE)
    [] sel = 3  -> Res(0, FALSE)
    [] sel = 4  -> Res((a + b) % 256, a + b > 255)
    [] sel = 5  -> Res((a + b + 1) % 256, ~(a + b + 1 > 255))
    [] sel = 6  -> Res((a + b + ci) % 256, a + b + ci > 255)
    [] sel = 7  -> Res((a + b + 1 - ci) % 256, ~(a + b + 1 - ci > 255))
    [] sel = 8  -> Res(a \div 2, a % 2 = 1)
    [] sel = 9  -> Res((a \div 2) + 128 * (a % 2), a % 2 = 1)
    [] sel = 10 -> Res((a \div 2) + 128 * ci, a % 2 = 1)
    [] sel = 11 -> Res((a \div 2) + 128 * (a \div 128), a % 2 = 1)
    [] sel = 12 -> Res(b, FALSE)
    [] sel = 13 -> Res(b, TRUE)
    [] sel = 14 -> Res(b, cin)
    [] sel = 15 -> Res(b, ~cin)

AluNames == <<"ADDH","A","NOR","ZERO","ADD","ADDS","ADC","ADCS",
              "LSR","RR","RRC","ASR","B","SETC","BH","INVC">>

(* Algebraic facts named by C08; checked by TLC over the complete domain in
   MC_Alu (they tie the table above to the property text). *)
AluFacts(sel, a, b, cin) ==
  LET r == AluF(sel, a, b, cin) IN
  /\ r.out \in Byte
  /\ r.z = (r.out = 0)
  /\ r.n = (r.out >= 128)
  /\ sel = 0 => r.c = (cin \/ a + b >= 256) /\ r.out = (a + b) % 256
  /\ sel \in {4, 6} => 256 * B2N(r.c) + r.out = a + b + (IF sel = 6 THEN B2N(cin) ELSE 0)
  \* subtracting additions: A + (255-B') + 1 = A - B' + 256; carry (inverted) = borrow
  /\ sel = 5 => (r.c = (a < 255 - b)) /\ r.out = (a + 256 - (255 - b)) % 256
  /\ sel = 7 => r.out = (a + b + 1 - B2N(cin)) % 256
  /\ sel = 2 => (r.out & (a | b)) = 0 /\ (r.out | (a | b)) = 255 /\ ~r.c
  /\ sel \in 8..11 => r.c = (a % 2 = 1) /\ r.out % 128 = a \div 2
  /\ sel = 8 => r.out < 128
  /\ sel = 9 => (r.out >= 128) = (a % 2 = 1)
  /\ sel = 10 => (r.out >= 128) = cin
  /\ sel = 11 => (r.out >= 128) = (a >= 128)
  /\ sel \in 12..15 => r.out = b
  /\ sel = 12 => ~r.c
  /\ sel = 13 => r.c
  /\ sel = 14 => r.c = cin
  /\ sel = 15 => r.c = ~cin
  /\ sel = 1 => r.out = a /\ ~r.c
  /\ sel = 3 => r.out = 0 /\ ~r.c /\ r.z
=====================================================================
