---------------------------- MODULE Bits ----------------------------
(* 8-bit helpers on naturals.  And/Or/Xor come from CommunityModules' Bitwise
   (a & b, a | b, a ^^ b); the complement is 255 - x because Bitwise!Not is
   width dependent. *)
EXTENDS Naturals, Integers, Bitwise

Byte == 0..255
B2N(b) == IF b THEN 1 ELSE 0
Bit(w, k) == (w \div (2^k)) % 2 = 1
Com(x) == 255 - x
And8(a, b) == a & b
Or8(a, b) == a | b
Xor8(a, b) == a ^^ b
\* clear in x every bit that is set in mask
Clr8(x, mask) == x - (x & mask)
\* set bit `mask` (a single-bit or multi-bit mask) in x iff v
SetBits(x, mask, v) == IF v THEN x | mask ELSE x - (x & mask)
Inc8(x) == (x + 1) % 256
Dec8(x) == (x + 255) % 256
=====================================================================
