mod boardsig;
mod asmproj;
mod bussig;
mod exhaust;
mod fuzz;
mod parsechk;
mod proj;
mod replay;
mod runnerchk;
mod scenario;

use serde_json::json;

fn usage() -> ! {
    eprintln!("usage: vh <rom|alu-check REF|decode-check REF|nextaddr-check REF|scenario SCRIPT TRACE|...>");
    std::process::exit(2)
}

/// With VH_TRACE_LOG=1 a logger at level Trace is installed that FORMATS every record (and throws the text away): the arguments of
/// the code's trace! / debug! statements are evaluated as they are under `2a-emulator -vvvv`, so a panic inside one is seen.
struct FormatAndDrop;
struct Sink;
impl std::fmt::Write for Sink {
    fn write_str(&mut self, _: &str) -> std::fmt::Result {
        Ok(())
    }
}
impl log::Log for FormatAndDrop {
    fn enabled(&self, _: &log::Metadata) -> bool {
        true
    }
    fn log(&self, record: &log::Record) {
        let _ = std::fmt::write(&mut Sink, *record.args());
    }
    fn flush(&self) {}
}
static LOGGER: FormatAndDrop = FormatAndDrop;

fn main() {
    // panics inside the code under test are data; keep stderr quiet
    std::panic::set_hook(Box::new(|_| {}));
    if std::env::var("VH_TRACE_LOG").map(|x| x == "1").unwrap_or(false) {
        let _ = log::set_logger(&LOGGER);
        log::set_max_level(log::LevelFilter::Trace);
    }
    let args: Vec<String> = std::env::args().collect();
    if args.len() < 2 {
        usage();
    }
    match args[1].as_str() {
        "rom" => println!("{}", json!(exhaust::rom_words())),
        "alu-check" => exhaust::alu_check(&args[2]),
        "decode-check" => exhaust::decode_check(&args[2], args.get(3).map(|x| x == "mac").unwrap_or(false)),
        "nextaddr-check" => exhaust::nextaddr_check(&args[2], args.get(3).map(|x| x == "sets").unwrap_or(false)),
        "irstep-check" => exhaust::irstep_check(&args[2]),
        "fuzz" => fuzz::fuzz(args[2].parse().unwrap(), args[3].parse().unwrap()),
        "muldiv-term" => exhaust::muldiv_term(),
        "runner-check" => runnerchk::check(&args[2]),
        "parse-texts" => parsechk::run(&args[2], &args[3], args.get(4).map(|s| s.as_str()).unwrap_or("parse")),
        "scenario" => scenario::run_script(&args[2], &args[3]),
        "bus-sig-check" => bussig::check(&args[2]),
        "board-check" => boardsig::check(&args[2]),
        "clamp-sweep" => boardsig::clamp_sweep(args[2].parse().unwrap()),
        "comp-sweep" => boardsig::comp_sweep(),
        "replay" => replay::replay_file(&args[2]),
        _ => usage(),
    }
}
