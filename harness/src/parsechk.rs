//! Runs the real parser (and optionally translator / formatter / loader) on texts given as code
//! points; every call under catch_unwind.
use crate::asmproj;
use crate::scenario::panic_msg;
use emulator_2a_lib::compiler::Translator;
use emulator_2a_lib::machine::{Machine, MachineConfig};
use emulator_2a_lib::parser::{AsmParser, ParserError};
use serde_json::{json, Value};
use std::io::{BufRead, Write};
use std::panic::{catch_unwind, AssertUnwindSafe};

pub fn text_of(v: &Value) -> String {
    v.as_array()
        .map(|a| a.iter().map(|c| std::char::from_u32(c.as_u64().unwrap_or(63) as u32).unwrap_or('?')).collect())
        .unwrap_or_default()
}

fn err_class(e: &ParserError) -> &'static str {
    let s = format!("{:?}", e);
    if s.starts_with("TooManyLabels") {
        "toomany"
    } else if s.starts_with("UndefinedLabels") {
        "undefined"
    } else {
        "syntax"
    }
}

/// mode: "parse" (verdict + AST), "full" (+ compile, load, render + reparse)
pub fn run(inp: &str, outp: &str, mode: &str) {
    let f = std::io::BufReader::new(std::fs::File::open(inp).expect("in"));
    let mut out = std::io::BufWriter::new(std::fs::File::create(outp).expect("out"));
    let (mut n, mut panics) = (0u64, 0u64);
    for line in f.lines() {
        let v: Value = serde_json::from_str(&line.unwrap()).expect("json");
        let text = text_of(&v["t"]);
        n += 1;
        let mut rec = serde_json::Map::new();
        rec.insert("op".into(), json!("parse"));
        rec.insert("seq".into(), json!(n));
        rec.insert("t".into(), v["t"].clone());
        if let Some(tag) = v.get("tag") {
            rec.insert("tag".into(), tag.clone());
        }
        match catch_unwind(AssertUnwindSafe(|| AsmParser::parse(&text))) {
            Err(e) => {
                panics += 1;
                rec.insert("v".into(), json!("panic"));
                rec.insert("msg".into(), json!(panic_msg(e)));
            }
            Ok(Err(e)) => {
                rec.insert("v".into(), json!("reject"));
                rec.insert("why".into(), json!(err_class(&e)));
            }
            Ok(Ok(a)) => {
                rec.insert("v".into(), json!("accept"));
                let p = asmproj::asm(&a);
                rec.insert("hc".into(), p["hc"].clone());
                rec.insert("ast".into(), p["ast"].clone());
                if mode == "full" {
                    // C06: compile + load + listing must not crash
                    let c = catch_unwind(AssertUnwindSafe(|| {
                        let bc = Translator::compile(&a);
                        let listing = format!("{}", bc);
                        let lines: Vec<Value> = bc
                            .lines
                            .iter()
                            .map(|(l, b)| json!({"line": asmproj::line(l), "bytes": b}))
                            .collect();
                        let image: Vec<u8> = bc.bytes().cloned().collect();
                        let ss = crate::proj::ss_code(bc.stacksize);
                        let ps = crate::proj::ps_code(bc.programsize);
                        let mut m = Machine::new(MachineConfig::default());
                        m.load(bc);
                        (lines, image, ss, ps, listing.len())
                    }));
                    match c {
                        Ok((lines, image, ss, ps, _)) => {
                            rec.insert("bc".into(), json!({"lines": lines, "image": image, "ss": ss, "ps": ps}));
                        }
                        Err(e) => {
                            panics += 1;
                            rec.insert("compile_panic".into(), json!(panic_msg(e)));
                        }
                    }
                    // C16: render and re-parse
                    let r = catch_unwind(AssertUnwindSafe(|| {
                        let rendered = format!("{}", a);
                        let again = AsmParser::parse(&rendered);
                        (rendered, again)
                    }));
                    match r {
                        Ok((rendered, again)) => {
                            rec.insert("rendered".into(), asmproj::cps(&rendered));
                            match again {
                                Ok(b) => {
                                    rec.insert("reparse".into(), json!("accept"));
                                    rec.insert("same".into(), json!(b == a));
                                    let p2 = asmproj::asm(&b);
                                    rec.insert("ast2".into(), p2["ast"].clone());
                                    rec.insert("hc2".into(), p2["hc"].clone());
                                }
                                Err(e) => {
                                    rec.insert("reparse".into(), json!("reject"));
                                    rec.insert("reparse_why".into(), json!(format!("{}", e).chars().take(300).collect::<String>()));
                                }
                            }
                        }
                        Err(e) => {
                            panics += 1;
                            rec.insert("render_panic".into(), json!(panic_msg(e)));
                        }
                    }
                }
            }
        }
        writeln!(out, "{}", Value::Object(rec)).unwrap();
    }
    out.flush().unwrap();
    println!("{}", json!({"texts": n, "panics": panics}));
}
