//! Scenario interpreter: executes a script of public API calls on the REAL machine and logs
//! one NDJSON event per call with the complete projected post-state.
use crate::proj::*;
use emulator_2a_lib::compiler::{ByteCode, Translator};
use emulator_2a_lib::machine::{
    Machine, MachineConfig, State, StepMode, VerifBus, VerifRaw,
};
use emulator_2a_lib::parser::{AsmParser, Line};
use serde_json::{json, Value};
use std::io::{BufRead, Write};
use std::panic::{catch_unwind, AssertUnwindSafe};
use std::sync::mpsc;
use std::time::Duration;

pub fn bytecode_of(image: &[u8], ss: i64, ps: i64) -> ByteCode {
    ByteCode {
        lines: vec![(Line::Empty(None), image.to_vec())],
        stacksize: ss_from_code(ss),
        programsize: ps_from_code(ps),
    }
}

fn geti(v: &Value, k: &str) -> Option<i64> {
    v.get(k).and_then(|x| x.as_i64())
}
fn getb(v: &Value, k: &str) -> Option<bool> {
    v.get(k).and_then(|x| x.as_bool())
}
fn bytes_of(v: &Value, k: &str) -> Vec<u8> {
    v.get(k)
        .and_then(|x| x.as_array())
        .map(|a| a.iter().map(|b| b.as_i64().unwrap_or(0) as u8).collect())
        .unwrap_or_default()
}

pub fn config_of(v: Option<&Value>) -> MachineConfig {
    let mut c = MachineConfig::default();
    if let Some(v) = v {
        let inr = bytes_of(v, "inr");
        if inr.len() == 4 {
            c.input_fc = inr[0];
            c.input_fd = inr[1];
            c.input_fe = inr[2];
            c.input_ff = inr[3];
        }
        if let Some(x) = geti(v, "di1") {
            c.digital_input1 = x as u8;
        }
        if let Some(x) = geti(v, "temp") {
            c.temp = volt_from_code(x);
        }
        if let Some(x) = geti(v, "ai1") {
            c.analog_input1 = volt_from_code(x);
        }
        if let Some(x) = geti(v, "ai2") {
            c.analog_input2 = volt_from_code(x);
        }
        if let Some(x) = getb(v, "j1") {
            c.jumper1 = x;
        }
        if let Some(x) = getb(v, "j2") {
            c.jumper2 = x;
        }
        if let Some(x) = getb(v, "uio1") {
            c.universal_input_output1 = x;
        }
        if let Some(x) = getb(v, "uio2") {
            c.universal_input_output2 = x;
        }
        if let Some(x) = getb(v, "uio3") {
            c.universal_input_output3 = x;
        }
    }
    c
}

pub fn state_from_name(s: &str) -> State {
    match s {
        "Stopped" => State::Stopped,
        "ErrorStopped" => State::ErrorStopped,
        _ => State::Running,
    }
}

/// Put the machine into the state described by a projection-shaped JSON object (every field optional).
pub fn restore_from(m: &mut Machine, v: &Value) {
    let mut raw = m.verif_snapshot();
    if let Some(x) = geti(v, "maddr") {
        raw.maddr = x as usize;
    }
    if let Some(x) = geti(v, "ir") {
        raw.ir = x as u8;
    }
    if let Some(x) = geti(v, "prw") {
        raw.pending_register_write = if x < 0 { None } else { Some(x as u8) };
    }
    if let Some(x) = getb(v, "pfw") {
        raw.pending_flag_write = x;
    }
    if let Some(x) = getb(v, "pei") {
        raw.pending_edge_interrupt = x;
    }
    if let Some(x) = getb(v, "pli") {
        raw.pending_level_interrupt = x;
    }
    if let Some(x) = getb(v, "wait") {
        raw.pending_wait_for_memory = x;
    }
    if let Some(x) = geti(v, "aout") {
        raw.alu_output = x as u8;
    }
    if let Some(x) = getb(v, "ac") {
        raw.alu_carry = x;
    }
    if let Some(x) = getb(v, "az") {
        raw.alu_zero = x;
    }
    if let Some(x) = getb(v, "an") {
        raw.alu_negative = x;
    }
    if let Some(x) = geti(v, "lbr") {
        raw.last_bus_read = x as u8;
    }
    if let Some(x) = v.get("st").and_then(|x| x.as_str()) {
        raw.state = state_from_name(x);
    }
    m.raw_mut().verif_restore(&raw);
    let regs = bytes_of(v, "regs");
    if regs.len() == 8 {
        use emulator_2a_lib::machine::RegisterNumber::*;
        for (i, r) in [R0, R1, R2, R3, R4, R5, R6, R7].iter().enumerate() {
            m.raw_mut().registers_mut().set(*r, regs[i]);
        }
    }
    if let Some(x) = geti(v, "ss") {
        m.raw_mut().set_stacksize(ss_from_code(x));
    }
    if let Some(x) = geti(v, "ps") {
        m.raw_mut().set_programsize(ps_from_code(x));
    }
    let ram = bytes_of(v, "ram");
    if ram.len() == 240 {
        m.raw_mut().bus_mut().memory_mut().copy_from_slice(&ram);
    }
    let inr = bytes_of(v, "inr");
    if inr.len() == 4 {
        m.set_input_fc(inr[0]);
        m.set_input_fd(inr[1]);
        m.set_input_fe(inr[2]);
        m.set_input_ff(inr[3]);
    }
    let outr = bytes_of(v, "outr");
    if outr.len() == 2 {
        m.raw_mut().bus_mut().write(0xFE, outr[0]);
        m.raw_mut().bus_mut().write(0xFF, outr[1]);
    }
    let mut b: VerifBus = m.bus().verif_snapshot();
    if let Some(x) = geti(v, "micr") {
        b.micr = x as u8;
    }
    if let Some(x) = geti(v, "misr") {
        b.misr = x as u8;
    }
    if let Some(x) = geti(v, "ucr") {
        b.ucr = x as u8;
    }
    if let Some(x) = geti(v, "usr") {
        b.usr = x as u8;
    }
    if let Some(x) = geti(v, "usend") {
        b.uart_send = x as u8;
    }
    if let Some(x) = geti(v, "urecv") {
        b.uart_recv = x as u8;
    }
    if let Some(x) = getb(v, "ten") {
        b.timer_enabled = x;
    }
    if let Some(x) = geti(v, "td1") {
        b.timer_div1 = x as usize;
    }
    if let Some(x) = geti(v, "td2") {
        b.timer_div2 = x as usize;
    }
    if let Some(x) = geti(v, "td3") {
        b.timer_div3 = x as usize;
    }
    m.raw_mut().bus_mut().verif_restore(&b);
    if let Some(x) = v.get("mode").and_then(|x| x.as_str()) {
        m.set_step_mode(if x == "Assembly" { StepMode::Assembly } else { StepMode::Real });
    }
}

pub fn panic_msg(e: Box<dyn std::any::Any + Send>) -> String {
    if let Some(s) = e.downcast_ref::<&str>() {
        s.to_string()
    } else if let Some(s) = e.downcast_ref::<String>() {
        s.clone()
    } else {
        "panic".to_string()
    }
}

/// One assembly-mode (or real-mode) clock key with a watchdog.  Returns None on a hang.
pub fn key_clock_watchdog(m: &Machine, limit: Duration) -> Option<Result<Machine, String>> {
    let mut c = m.clone();
    let (tx, rx) = mpsc::channel();
    std::thread::spawn(move || {
        let r = catch_unwind(AssertUnwindSafe(|| {
            c.trigger_key_clock();
        }));
        let _ = tx.send(match r {
            Ok(()) => Ok(c),
            Err(e) => Err(panic_msg(e)),
        });
    });
    // a step needs microseconds; `limit` is generous, but on a starved machine even that can pass: before the FIRST hang
    // of a process is declared the step gets 25 more seconds (afterwards the short limit is enough - the defect is established)
    static HANG_SEEN: std::sync::atomic::AtomicBool = std::sync::atomic::AtomicBool::new(false);
    match rx.recv_timeout(limit) {
        Ok(r) => Some(r),
        Err(_) => {
            if HANG_SEEN.load(std::sync::atomic::Ordering::Relaxed) {
                return None;
            }
            match rx.recv_timeout(Duration::from_secs(25)) {
                Ok(r) => Some(r),
                Err(_) => {
                    HANG_SEEN.store(true, std::sync::atomic::Ordering::Relaxed);
                    None
                }
            }
        }
    }
}

/// Number of single edges after which `pre` equals `post` (minimal, <= bound), or -1.
fn edges_between(pre: &Machine, post: &Machine, bound: usize) -> i64 {
    let mut c = pre.clone();
    c.set_step_mode(StepMode::Real);
    let mut target = post.clone();
    target.set_step_mode(StepMode::Real);
    // zero edges only if an edge could not have been observed: halted, or a fix-point of the clock edge
    // (a tight loop such as `JR -2` returns to the SAME state after a positive number of edges)
    if c == target {
        let mut probe = c.clone();
        probe.trigger_key_clock();
        if probe == c {
            return 0;
        }
    }
    for n in 1..=bound {
        c.trigger_key_clock();
        if c == target {
            return n as i64;
        }
    }
    -1
}

pub struct Runner<W: Write> {
    pub m: Machine,
    pub out: W,
    pub seq: u64,
    pub events: u64,
    pub panics: u64,
    pub hangs: u64,
    pub quiet: bool,
}

impl<W: Write> Runner<W> {
    pub fn new(out: W) -> Self {
        Runner {
            m: Machine::new(MachineConfig::default()),
            out,
            seq: 0,
            events: 0,
            panics: 0,
            hangs: 0,
            quiet: false,
        }
    }

    fn emit(&mut self, op: &str, args: Value, with_ram: bool, extra: Option<(&str, Value)>) {
        self.seq += 1;
        self.events += 1;
        if self.quiet {
            return;
        }
        let mut ev = json!({"seq": self.seq, "op": op, "a": args, "s": machine_json(&self.m, with_ram)});
        if let Some((k, v)) = extra {
            ev.as_object_mut().unwrap().insert(k.to_string(), v);
        }
        writeln!(self.out, "{}", ev).unwrap();
    }

    fn emit_panic(&mut self, op: &str, args: Value, msg: String) {
        self.seq += 1;
        self.events += 1;
        self.panics += 1;
        let ev = json!({"seq": self.seq, "op": "panic", "a": {"op": op, "args": args, "msg": msg}});
        writeln!(self.out, "{}", ev).unwrap();
    }

    /// Execute one scripted op; a panic anywhere in the code under test is data (a `panic` event), never a harness crash.
    pub fn exec(&mut self, v: &Value) {
        if let Err(e) = catch_unwind(AssertUnwindSafe(|| self.exec_inner(v))) {
            let op = v.get("op").and_then(|x| x.as_str()).unwrap_or("").to_string();
            self.emit_panic(&op, v.clone(), panic_msg(e));
        }
    }

    fn exec_inner(&mut self, v: &Value) {
        let op = v.get("op").and_then(|x| x.as_str()).unwrap_or("").to_string();
        let n = geti(v, "n").unwrap_or(1).max(1);
        match op.as_str() {
            "new" => {
                let cfg = config_of(v.get("cfg"));
                self.m = Machine::new(cfg);
                self.emit("init", json!({}), true, None);
            }
            "new_prog" => {
                let cfg = config_of(v.get("cfg"));
                let image = bytes_of(v, "image");
                let bc = bytecode_of(&image, geti(v, "ss").unwrap_or(16), geti(v, "ps").unwrap_or(-1));
                match catch_unwind(AssertUnwindSafe(|| Machine::new_with_program(cfg, bc))) {
                    Ok(m) => {
                        self.m = m;
                        self.emit("init", json!({}), true, None);
                    }
                    Err(e) => self.emit_panic(&op, v.clone(), panic_msg(e)),
                }
            }
            "new_checked" => {
                // Machine::new / Machine::new_with_program as VALIDATED events: the configuration (and program) is logged, the
                // specification computes the machine (ApplyConfigF / NewWithProgramF) and the complete state is compared
                let cfgv = v.get("cfg").cloned().unwrap_or(json!({}));
                let cfg = config_of(Some(&cfgv));
                if v.get("image").is_some() {
                    let image = bytes_of(v, "image");
                    let ss = geti(v, "ss").unwrap_or(16);
                    let ps = geti(v, "ps").unwrap_or(-1);
                    let bc = bytecode_of(&image, ss, ps);
                    self.m = Machine::new_with_program(cfg, bc);
                    self.emit("newm", json!({"cfg": cfgv, "prog": 1, "image": image, "ss": ss, "ps": ps}), true, None);
                } else {
                    self.m = Machine::new(cfg);
                    self.emit("newm", json!({"cfg": cfgv, "prog": 0, "image": [], "ss": 0, "ps": 0}), true, None);
                }
            }
            "load_raw" => {
                let image = bytes_of(v, "image");
                self.m.load_raw(image.iter());
                self.emit("load_raw", json!({"image": image}), true, None);
            }
            "restore" => {
                let mut m = Machine::new(MachineConfig::default());
                if v.get("keep").and_then(|x| x.as_bool()).unwrap_or(false) {
                    m = self.m.clone();
                }
                restore_from(&mut m, v.get("state").unwrap_or(&Value::Null));
                self.m = m;
                self.emit("init", json!({}), true, None);
            }
            "load" => {
                let image = bytes_of(v, "image");
                let ss = geti(v, "ss").unwrap_or(16);
                let ps = geti(v, "ps").unwrap_or(-1);
                let bc = bytecode_of(&image, ss, ps);
                let r = catch_unwind(AssertUnwindSafe(|| self.m.load(bc)));
                match r {
                    Ok(()) => self.emit("load", json!({"image": image, "ss": ss, "ps": ps}), true, None),
                    Err(e) => self.emit_panic(&op, v.clone(), panic_msg(e)),
                }
            }
            "load_asm" => {
                let src = v.get("src").and_then(|x| x.as_str()).unwrap_or("");
                let r = catch_unwind(AssertUnwindSafe(|| {
                    let asm = AsmParser::parse(src).map_err(|e| format!("{}", e))?;
                    let bc = Translator::compile(&asm);
                    let image: Vec<u8> = bc.bytes().cloned().collect();
                    let ss = ss_code(bc.stacksize);
                    let ps = ps_code(bc.programsize);
                    self.m.load(bc);
                    Ok::<_, String>((image, ss, ps))
                }));
                match r {
                    Ok(Ok((image, ss, ps))) => {
                        self.emit("load", json!({"image": image, "ss": ss, "ps": ps}), true, None)
                    }
                    Ok(Err(e)) => self.emit_panic(&op, v.clone(), format!("parse error: {}", e)),
                    Err(e) => self.emit_panic(&op, v.clone(), panic_msg(e)),
                }
            }
            "edge" => {
                for _ in 0..n {
                    let r = catch_unwind(AssertUnwindSafe(|| self.m.raw_mut().trigger_clock_edge()));
                    match r {
                        Ok(()) => self.emit("edge", json!({}), false, None),
                        Err(e) => {
                            self.emit_panic(&op, v.clone(), panic_msg(e));
                            break;
                        }
                    }
                }
            }
            "key_clock" => {
                for _ in 0..n {
                    if self.m.step_mode() == StepMode::Real {
                        let r = catch_unwind(AssertUnwindSafe(|| self.m.trigger_key_clock()));
                        match r {
                            Ok(()) => self.emit("edge", json!({}), false, None),
                            Err(e) => {
                                self.emit_panic(&op, v.clone(), panic_msg(e));
                                break;
                            }
                        }
                    } else {
                        let pre = self.m.clone();
                        match key_clock_watchdog(&pre, Duration::from_millis(1500)) {
                            None => {
                                self.hangs += 1;
                                self.seq += 1;
                                self.events += 1;
                                let ev = json!({"seq": self.seq, "op": "hang", "a": {"op": "key_clock",
                                    "pc": pre.registers().content()[3], "ir": pre.verif_snapshot().ir,
                                    "maddr": pre.verif_snapshot().maddr as u64}});
                                writeln!(self.out, "{}", ev).unwrap();
                                // continue with single edges so that the rest of the script stays meaningful
                                self.m.set_step_mode(StepMode::Real);
                                self.m.trigger_key_clock();
                                self.m.set_step_mode(StepMode::Assembly);
                                break;
                            }
                            Some(Err(msg)) => {
                                self.emit_panic(&op, v.clone(), msg);
                                break;
                            }
                            Some(Ok(post)) => {
                                let k = edges_between(&pre, &post, 6000);
                                self.m = post;
                                self.emit("asm_step", json!({"n": k}), false, None);
                            }
                        }
                    }
                }
            }
            "isa_run" => {
                // run from instruction boundary to instruction boundary; one event per instruction
                let key_every = geti(v, "key_every").unwrap_or(0);
                // reach the first boundary silently
                let mut guard = 0;
                while !self.m.is_instruction_done() && self.m.state() == State::Running && guard < 6000 {
                    let before = self.m.clone();
                    self.m.raw_mut().trigger_clock_edge();
                    guard += 1;
                    if self.m == before {
                        break;
                    }
                }
                if self.m.is_instruction_done() && self.m.state() == State::Running {
                    self.emit("isa_init", json!({}), true, None);
                    for i in 0..n {
                        if key_every > 0 && i % key_every == key_every - 1 {
                            self.m.trigger_key_interrupt();
                            self.emit("isa_key", json!({}), true, None);
                        }
                        let mut k: i64 = 0;
                        let mut left = false;
                        let mut outcome = "isa_stuck";
                        loop {
                            let before = self.m.clone();
                            let r = catch_unwind(AssertUnwindSafe(|| self.m.raw_mut().trigger_clock_edge()));
                            if let Err(e) = r {
                                self.emit_panic(&op, v.clone(), panic_msg(e));
                                outcome = "panic";
                                break;
                            }
                            k += 1;
                            if self.m.state() != State::Running {
                                outcome = "isa_halt";
                                break;
                            }
                            if !self.m.is_instruction_done() {
                                left = true;
                            }
                            if left && self.m.is_instruction_done() {
                                outcome = "isa_insn";
                                break;
                            }
                            if self.m == before || k > 6000 {
                                break;
                            }
                        }
                        if outcome == "panic" {
                            break;
                        }
                        self.emit(outcome, json!({"k": k}), true, None);
                        if outcome != "isa_insn" {
                            break;
                        }
                    }
                }
            }
            "probe" => {
                // apply a reset / load to a CLONE and log its state; the history machine is not disturbed
                let kind = v.get("kind").and_then(|x| x.as_str()).unwrap_or("cpu_reset").to_string();
                let image = bytes_of(v, "image");
                let ss = geti(v, "ss").unwrap_or(16);
                let ps = geti(v, "ps").unwrap_or(-1);
                let mut c = self.m.clone();
                let r = catch_unwind(AssertUnwindSafe(|| match kind.as_str() {
                    "cpu_reset" => c.cpu_reset(),
                    "master_reset" => c.master_reset(),
                    _ => c.load(bytecode_of(&image, ss, ps)),
                }));
                match r {
                    Ok(()) => {
                        self.seq += 1;
                        self.events += 1;
                        let ev = json!({"seq": self.seq, "op": "probe", "a": {"kind": kind, "image": image, "ss": ss, "ps": ps},
                            "s": machine_json(&c, true)});
                        writeln!(self.out, "{}", ev).unwrap();
                    }
                    Err(e) => self.emit_panic(&op, v.clone(), panic_msg(e)),
                }
            }
            "lockstep" => {
                // load the program here AND into a newly created machine; run both n edges; compare the
                // registers, sequencer, RAM, inputs/outputs and state after every cycle
                let image = bytes_of(v, "image");
                let ss = geti(v, "ss").unwrap_or(16);
                let ps = geti(v, "ps").unwrap_or(-1);
                let mut fresh = Machine::new(MachineConfig::default());
                fresh.load(bytecode_of(&image, ss, ps));
                self.m.load(bytecode_of(&image, ss, ps));
                self.emit("load", json!({"image": image, "ss": ss, "ps": ps}), true, None);
                let mut diff: i64 = -1;
                for i in 0..n {
                    self.m.raw_mut().trigger_clock_edge();
                    fresh.raw_mut().trigger_clock_edge();
                    let a = self.m.verif_snapshot();
                    let b = fresh.verif_snapshot();
                    let same = a == b
                        && self.m.registers().content() == fresh.registers().content()
                        && self.m.bus().memory()[..] == fresh.bus().memory()[..]
                        && self.m.bus().output_fe() == fresh.bus().output_fe()
                        && self.m.bus().output_ff() == fresh.bus().output_ff()
                        && self.m.stacksize() == fresh.stacksize()
                        && self.m.programsize() == fresh.programsize();
                    if !same && diff < 0 {
                        diff = i;
                    }
                }
                self.emit("lockstep", json!({"n": n, "first_diff": diff}), false, None);
            }
            "mode" => {
                let md = v.get("v").and_then(|x| x.as_str()).unwrap_or("Real");
                self.m.set_step_mode(if md == "Assembly" { StepMode::Assembly } else { StepMode::Real });
                self.emit("mode", json!({"v": md}), false, None);
            }
            "key_int" | "continue" | "cpu_reset" | "master_reset" => {
                let r = catch_unwind(AssertUnwindSafe(|| match op.as_str() {
                    "key_int" => self.m.trigger_key_interrupt(),
                    "continue" => self.m.trigger_key_continue(),
                    "cpu_reset" => self.m.cpu_reset(),
                    _ => self.m.master_reset(),
                }));
                match r {
                    Ok(()) => self.emit(&op, json!({}), false, None),
                    Err(e) => self.emit_panic(&op, v.clone(), panic_msg(e)),
                }
            }
            "set_input" => {
                let k = geti(v, "k").unwrap_or(0);
                let x = geti(v, "v").unwrap_or(0) as u8;
                match k {
                    0 => self.m.set_input_fc(x),
                    1 => self.m.set_input_fd(x),
                    2 => self.m.set_input_fe(x),
                    _ => self.m.set_input_ff(x),
                }
                self.emit("set_input", json!({"k": k.min(3), "v": x}), false, None);
            }
            "set_di1" => {
                let x = geti(v, "v").unwrap_or(0) as u8;
                self.m.set_digital_input1(x);
                self.emit("set_di1", json!({"v": x}), false, None);
            }
            "set_temp" | "set_ai1" | "set_ai2" => {
                let code = geti(v, "x").unwrap_or(0);
                let f = match v.get("bits").and_then(|b| b.as_u64()) {
                    Some(bits) => f32::from_bits(bits as u32),
                    None => volt_from_code(code),
                };
                let r = catch_unwind(AssertUnwindSafe(|| match op.as_str() {
                    "set_temp" => self.m.set_temp(f),
                    "set_ai1" => self.m.set_analog_input1(f),
                    _ => self.m.set_analog_input2(f),
                }));
                match r {
                    Ok(()) => self.emit(&op, json!({"x": code}), false, None),
                    Err(e) => self.emit_panic(&op, v.clone(), panic_msg(e)),
                }
            }
            "set_j1" | "set_j2" => {
                let x = getb(v, "v").unwrap_or(false);
                if op == "set_j1" {
                    self.m.set_jumper1(x)
                } else {
                    self.m.set_jumper2(x)
                }
                self.emit(&op, json!({"v": x}), false, None);
            }
            "set_uio" => {
                let k = geti(v, "k").unwrap_or(1);
                let x = getb(v, "v").unwrap_or(false);
                match k {
                    1 => self.m.set_universal_input_output1(x),
                    2 => self.m.set_universal_input_output2(x),
                    _ => self.m.set_universal_input_output3(x),
                }
                self.emit("set_uio", json!({"k": k.max(1).min(3), "v": x}), false, None);
            }
            "bus_write" => {
                let a = geti(v, "a").unwrap_or(0) as u8;
                let x = geti(v, "v").unwrap_or(0) as u8;
                let r = catch_unwind(AssertUnwindSafe(|| self.m.raw_mut().bus_mut().write(a, x)));
                match r {
                    Ok(()) => self.emit("bus_write", json!({"a": a, "v": x}), false, None),
                    Err(e) => self.emit_panic(&op, v.clone(), panic_msg(e)),
                }
            }
            "bus_read" => {
                let a = geti(v, "a").unwrap_or(0) as u8;
                let r = catch_unwind(AssertUnwindSafe(|| self.m.bus().read(a)));
                match r {
                    Ok(x) => self.emit("bus_read", json!({"a": a, "r": x}), false, None),
                    Err(e) => self.emit_panic(&op, v.clone(), panic_msg(e)),
                }
            }
            "set_limits" => {
                let ss = geti(v, "ss").unwrap_or(16);
                let ps = geti(v, "ps").unwrap_or(-1);
                self.m.raw_mut().set_stacksize(ss_from_code(ss));
                self.m.raw_mut().set_programsize(ps_from_code(ps));
                self.emit("set_limits", json!({"ss": ss, "ps": if ps < 0 { -1 } else { ps }}), false, None);
            }
            "clock_bulk" => {
                // n clock keys without logging each one (millions): the state afterwards is logged for a code-to-code comparison
                let n = geti(v, "n").unwrap_or(1).max(0) as u64;
                for _ in 0..n {
                    self.m.trigger_key_clock();
                }
                self.emit("bulk", json!({"n": n}), true, None);
            }
            "checkpoint" => {
                let _ = format!("{:?}", self.m);
                self.emit("checkpoint", json!({}), true, None);
            }
            _ => {
                eprintln!("unknown op {}", op);
                std::process::exit(2);
            }
        }
    }
}

/// `vh scenario <script.ndjson> <trace.ndjson>`; prints a JSON summary.
pub fn run_script(script: &str, trace: &str) {
    let f = std::io::BufReader::new(std::fs::File::open(script).expect("script"));
    let out = std::io::BufWriter::new(std::fs::File::create(trace).expect("trace"));
    let mut r = Runner::new(out);
    for line in f.lines() {
        let line = line.unwrap();
        if line.trim().is_empty() {
            continue;
        }
        let v: Value = serde_json::from_str(&line).expect("json op");
        r.exec(&v);
        // every hang leaves a spinning thread behind and costs the watchdog's limit: a trace with a dozen of them is rejected anyway
        if r.hangs >= 12 {
            break;
        }
    }
    r.out.flush().unwrap();
    println!("{}", json!({"events": r.events, "panics": r.panics, "hangs": r.hangs}));
    // hung watchdog threads may still spin: leave without joining them
    std::process::exit(0);
}
