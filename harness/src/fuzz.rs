//! C13 bulk driver: random RAM images x stack sizes x program-size limits x random interleavings of
//! clock edges, key interrupts, continue, resets, input / board setters with arbitrary values
//! (all f32 classes through raw bit patterns) and direct bus calls on all 256 addresses.
//! Every call runs under catch_unwind (overflow checks + debug assertions are on in this profile);
//! after every call the state is read through all getters and one further edge is issued on a clone.
use crate::proj::machine_json;
use crate::scenario::{bytecode_of, panic_msg};
use emulator_2a_lib::machine::{Machine, MachineConfig, StepMode};
use rand::rngs::StdRng;
use rand::{Rng, SeedableRng};
use serde_json::{json, Value};
use std::panic::{catch_unwind, AssertUnwindSafe};

fn hostile_f32(r: &mut StdRng) -> f32 {
    match r.gen_range(0..10) {
        0 => f32::NAN,
        1 => f32::INFINITY,
        2 => f32::NEG_INFINITY,
        3 => -0.0,
        4 => f32::MAX,
        5 => f32::MIN_POSITIVE,
        6 => r.gen_range(-10.0..10.0),
        7 => 5.0,
        _ => f32::from_bits(r.gen()),
    }
}

fn image(r: &mut StdRng) -> Vec<u8> {
    let n = r.gen_range(0..=240usize);
    let biased = r.gen_bool(0.6);
    let mut v = Vec::with_capacity(n);
    while v.len() < n {
        if biased && r.gen_bool(0.5) {
            // defined-looking instruction starts
            let b: u8 = r.gen();
            v.push(b);
            if b >= 0xF0 {
                v.push(r.gen());
                v.push(*[0x10u8, 0x1F, 0x2C, 0x40, 0x44, 0x5B, 0x6F].get(r.gen_range(0..7)).unwrap());
                v.push(*[0xEFu8, 0xF0, 0xF2, 0xF9, 0xFD, 0xFF].get(r.gen_range(0..6)).unwrap());
            }
        } else {
            v.push(r.gen());
        }
    }
    v.truncate(240);
    v
}

pub fn fuzz(seed: u64, calls: u64) {
    let mut r = StdRng::seed_from_u64(seed);
    let mut m = Machine::new(MachineConfig::default());
    let mut recent: std::collections::VecDeque<String> = Default::default();
    let mut panics: Vec<Value> = vec![];
    let mut n: u64 = 0;
    let mut loads: u64 = 0;
    let mut halts: u64 = 0;
    let mut images_digest: u64 = 0;
    while n < calls {
        let k = r.gen_range(0..1000);
        let desc: String;
        let res = {
            let mref = &mut m;
            let rr = &mut r;
            if k < 4 || n == 0 {
                let img = image(rr);
                let ss = [0i64, 16, 32, 48, 64][rr.gen_range(0..5)];
                let ps = if rr.gen_bool(0.3) { -1 } else { rr.gen_range(0..=255) };
                desc = format!("load len={} ss={} ps={} first={:?}", img.len(), ss, ps, &img[..img.len().min(6)]);
                loads += 1;
                images_digest = images_digest.wrapping_mul(31).wrapping_add(img.iter().map(|x| *x as u64).sum::<u64>());
                catch_unwind(AssertUnwindSafe(|| mref.load(bytecode_of(&img, ss, ps))))
            } else if k < 700 {
                desc = "edge".into();
                catch_unwind(AssertUnwindSafe(|| mref.raw_mut().trigger_clock_edge()))
            } else if k < 730 {
                desc = "key_interrupt".into();
                catch_unwind(AssertUnwindSafe(|| mref.trigger_key_interrupt()))
            } else if k < 750 {
                desc = "continue".into();
                catch_unwind(AssertUnwindSafe(|| mref.trigger_key_continue()))
            } else if k < 760 {
                desc = "cpu_reset".into();
                catch_unwind(AssertUnwindSafe(|| mref.cpu_reset()))
            } else if k < 764 {
                desc = "master_reset".into();
                catch_unwind(AssertUnwindSafe(|| mref.master_reset()))
            } else if k < 800 {
                let (i, v): (u8, u8) = (rr.gen_range(0..4), rr.gen());
                desc = format!("set_input {} {}", i, v);
                catch_unwind(AssertUnwindSafe(|| match i {
                    0 => mref.set_input_fc(v),
                    1 => mref.set_input_fd(v),
                    2 => mref.set_input_fe(v),
                    _ => mref.set_input_ff(v),
                }))
            } else if k < 860 {
                let f = hostile_f32(rr);
                let which = rr.gen_range(0..3);
                desc = format!("set_voltage {} bits={:#x}", which, f.to_bits());
                catch_unwind(AssertUnwindSafe(|| match which {
                    0 => mref.set_temp(f),
                    1 => mref.set_analog_input1(f),
                    _ => mref.set_analog_input2(f),
                }))
            } else if k < 900 {
                let (which, b): (u8, bool) = (rr.gen_range(0..6), rr.gen());
                let d: u8 = rr.gen();
                desc = format!("board_bool {} {} {}", which, b, d);
                catch_unwind(AssertUnwindSafe(|| match which {
                    0 => mref.set_jumper1(b),
                    1 => mref.set_jumper2(b),
                    2 => mref.set_universal_input_output1(b),
                    3 => mref.set_universal_input_output2(b),
                    4 => mref.set_universal_input_output3(b),
                    _ => mref.set_digital_input1(d),
                }))
            } else if k < 950 {
                let (a, v): (u8, u8) = (if rr.gen_bool(0.7) { rr.gen_range(0xF0..=0xFF) } else { rr.gen() }, rr.gen());
                desc = format!("bus_write {:#x} {}", a, v);
                catch_unwind(AssertUnwindSafe(|| mref.raw_mut().bus_mut().write(a, v)))
            } else if k < 990 {
                let a: u8 = if rr.gen_bool(0.7) { rr.gen_range(0xF0..=0xFF) } else { rr.gen() };
                desc = format!("bus_read {:#x}", a);
                catch_unwind(AssertUnwindSafe(|| {
                    let _ = mref.bus().read(a);
                }))
            } else if k < 995 {
                // a whole assembly-mode step (on a clone, under a watchdog: a step that does not return is a finding, not a hang of the driver)
                desc = "assembly-mode key_clock".into();
                let mut c = mref.clone();
                c.set_step_mode(StepMode::Assembly);
                match crate::scenario::key_clock_watchdog(&c, std::time::Duration::from_secs(4)) {
                    None => Err(Box::new("the assembly-mode step did not return within 4 s".to_string()) as Box<dyn std::any::Any + Send>),
                    Some(Err(msg)) => Err(Box::new(msg) as Box<dyn std::any::Any + Send>),
                    Some(Ok(mut post)) => {
                        post.set_step_mode(StepMode::Real);
                        *mref = post;
                        Ok(())
                    }
                }
            } else {
                let asm = rr.gen_bool(0.5);
                desc = format!("set_step_mode asm={} + key_clock (real mode only)", asm);
                catch_unwind(AssertUnwindSafe(|| {
                    mref.set_step_mode(if asm { StepMode::Assembly } else { StepMode::Real });
                    mref.set_step_mode(StepMode::Real);
                    mref.trigger_key_clock();
                }))
            }
        };
        n += 1;
        if recent.len() >= 40 {
            recent.pop_front();
        }
        recent.push_back(desc.clone());
        let mut bad: Option<String> = None;
        if let Err(e) = res {
            bad = Some(format!("panic in `{}`: {}", desc, panic_msg(e)));
        } else {
            // the machine can be read and stepped further
            let after = catch_unwind(AssertUnwindSafe(|| {
                let _ = machine_json(&m, false);
                // the state can also be read through its Debug rendering (what a log line or an assertion message does)
                if n % 29 == 0 || m.bus().memory()[0xEF] != 0 || m.bus().memory()[0] != 0 {
                    let _ = format!("{:?}", m);
                }
                let mut c = m.clone();
                c.raw_mut().trigger_clock_edge();
                let _ = c.state();
            }));
            if let Err(e) = after {
                bad = Some(format!("panic while reading / stepping after `{}`: {}", desc, panic_msg(e)));
            }
        }
        if m.state() != emulator_2a_lib::machine::State::Running {
            halts += 1;
        }
        if let Some(b) = bad {
            if panics.len() < 10 {
                panics.push(json!({"call_index": n, "what": b, "recent_calls": recent.iter().cloned().collect::<Vec<_>>(), "seed": seed}));
            }
            // start over with a fresh machine so that the run continues
            m = Machine::new(MachineConfig::default());
            if panics.len() >= 10 {
                break;
            }
        }
    }
    println!("{}", json!({"calls": n, "loads": loads, "calls_in_halted_state": halts, "panics": panics, "images_digest": images_digest}));
}
