//! C10 S->I: every (pre-state, address, byte) single write and every ordered pair of write
//! addresses enumerated by TLC is forced onto the real Bus and the complete state signature
//! (same field order as MC_Bus!Sig) is compared.
use crate::proj::ram_sum;
use crate::scenario::Runner;
use emulator_2a_lib::machine::Bus;
use serde_json::{json, Value};
use std::io::BufRead;
use std::panic::{catch_unwind, AssertUnwindSafe};

/// A panic in the code under test is data: the signature becomes a sentinel that matches no specification row.
fn guarded<F: FnOnce() -> Vec<i64>>(f: F) -> Vec<i64> {
    catch_unwind(AssertUnwindSafe(f)).unwrap_or_else(|_| vec![-99])
}

pub fn sig(bus: &Bus, a: u8) -> Vec<i64> {
    let s = bus.verif_snapshot();
    let b = bus.board();
    let documented = a <= 0xEF || a == 0xF0 || a == 0xF1 || a == 0xF3 || a == 0xF9 || a >= 0xFC;
    let rb: i64 = if a == 0xF1 {
        (bus.read(a) == b.dasr().bits()) as i64
    } else if a == 0xF3 {
        (bus.read(a) == b.daisr().bits()) as i64
    } else if documented {
        bus.read(a) as i64
    } else {
        -1
    };
    vec![
        ram_sum(bus.memory()) as i64,
        bus.read(0xFC) as i64,
        bus.read(0xFD) as i64,
        bus.read(0xFE) as i64,
        bus.read(0xFF) as i64,
        bus.output_fe() as i64,
        bus.output_ff() as i64,
        s.micr as i64,
        s.misr as i64,
        *b.digital_input1() as i64,
        *b.digital_output1() as i64,
        *b.digital_output2() as i64,
        rb,
        b.dasr().bits() as i64,
        b.daisr().bits() as i64,
    ]
}

fn row_of(v: &Value) -> Vec<i64> {
    v.as_array().unwrap().iter().map(|x| x.as_i64().unwrap()).collect()
}

pub fn check(path: &str) {
    let f = std::io::BufReader::new(std::fs::File::open(path).expect("file"));
    let mut pres: Vec<Bus> = vec![];
    let (mut singles, mut pairs, mut mism) = (0u64, 0u64, 0u64);
    let mut first: Vec<Value> = vec![];
    let mut reads_pure = true;
    for line in f.lines() {
        let v: Value = serde_json::from_str(&line.unwrap()).expect("json");
        match v["kind"].as_str().unwrap() {
            "pre" => {
                for ops in v["ops"].as_array().unwrap() {
                    let mut r = Runner::new(std::io::sink());
                    r.quiet = true;
                    for op in ops.as_array().unwrap() {
                        r.exec(op);
                    }
                    if r.panics > 0 {
                        mism += 1;
                        first.push(json!({"kind": "pre", "ops": ops, "impl": "panic while building the pre-state"}));
                    }
                    pres.push(r.m.bus().clone());
                }
            }
            "single" => {
                let p = v["p"].as_u64().unwrap() as usize - 1;
                let a = v["a"].as_u64().unwrap() as u8;
                let rows = v["rows"].as_array().unwrap();
                for byte in 0..=255u8 {
                    let mut b = pres[p].clone();
                    let got = guarded(|| {
                        b.write(a, byte);
                        sig(&b, a)
                    });
                    // reads never change state: read every address, then compare again
                    let before = b.clone();
                    let pure = catch_unwind(AssertUnwindSafe(|| {
                        for r in 0..=255u8 {
                            let _ = b.read(r);
                        }
                        b == before
                    }))
                    .unwrap_or(false);
                    if !pure {
                        reads_pure = false;
                    }
                    singles += 1;
                    let exp = row_of(&rows[byte as usize]);
                    if got != exp {
                        mism += 1;
                        if first.len() < 10 {
                            first.push(json!({"kind": "single", "pre": p + 1, "addr": a, "byte": byte, "spec": exp, "impl": got}));
                        }
                    }
                }
            }
            "pair" => {
                let p = v["p"].as_u64().unwrap() as usize - 1;
                let a = v["a"].as_u64().unwrap() as u8;
                let b2 = v["b"].as_u64().unwrap() as u8;
                let mut b = pres[p].clone();
                let got = guarded(|| {
                    b.write(a, 90);
                    b.write(b2, 165);
                    sig(&b, a)
                });
                pairs += 1;
                let exp = row_of(&v["row"]);
                if got != exp {
                    mism += 1;
                    if first.len() < 10 {
                        first.push(json!({"kind": "pair", "pre": p + 1, "addr1": a, "addr2": b2, "spec": exp, "impl": got}));
                    }
                }
            }
            _ => {}
        }
    }
    println!("{}", json!({"singles": singles, "pairs": pairs, "mismatches": mism, "reads_pure": reads_pure, "first": first}));
}
