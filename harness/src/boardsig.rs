//! C14 S->I: every board state enumerated by TLC is restored on the real board (verif hook) and
//! every action of the alphabet is applied; the complete board signature is compared.
use crate::proj::{mv_of, mv_of_dac};
use crate::scenario::Runner;
use emulator_2a_lib::machine::{Bus, VerifBoard};
use serde_json::{json, Value};
use std::io::BufRead;
use std::panic::{catch_unwind, AssertUnwindSafe};

/// A panic in the code under test is data: the signature becomes a sentinel that matches no specification row.
fn guarded<F: FnOnce() -> Vec<i64>>(f: F) -> Vec<i64> {
    catch_unwind(AssertUnwindSafe(f)).unwrap_or_else(|_| vec![-99])
}

pub fn bsig(bus: &Bus) -> Vec<i64> {
    let b = bus.board();
    vec![
        *b.digital_input1() as i64,
        *b.digital_output1() as i64,
        *b.digital_output2() as i64,
        mv_of(*b.temp()),
        mv_of(b.analog_inputs()[0]),
        mv_of(b.analog_inputs()[1]),
        mv_of_dac(b.analog_outputs()[0]),
        mv_of_dac(b.analog_outputs()[1]),
        b.dasr().bits() as i64,
        b.daisr().bits() as i64,
        b.daicr().bits() as i64,
        *b.fan_rpm() as i64,
        b.uio_dir()[0] as i64,
        b.uio_dir()[1] as i64,
        b.uio_dir()[2] as i64,
        bus.read(0xF0) as i64,
        bus.read(0xF1) as i64,
        bus.read(0xF2) as i64,
        bus.read(0xF3) as i64,
    ]
}

pub fn board_from_sig(s: &[i64]) -> VerifBoard {
    VerifBoard {
        digital_input1: s[0] as u8,
        digital_output1: s[1] as u8,
        digital_output2: s[2] as u8,
        temp: s[3] as f32 / 1000.0,
        analog_inputs: [s[4] as f32 / 1000.0, s[5] as f32 / 1000.0],
        analog_outputs: [(s[6] / 10) as u8 as f32 / 100.0, (s[7] / 10) as u8 as f32 / 100.0],
        dasr: s[8] as u8,
        daisr: s[9] as u8,
        daicr: s[10] as u8,
        fan_rpm: s[11] as usize,
        uio_dir: [s[12] != 0, s[13] != 0, s[14] != 0],
    }
}

fn row_of(v: &Value) -> Vec<i64> {
    v.as_array().unwrap().iter().map(|x| x.as_i64().unwrap()).collect()
}

pub fn check(path: &str) {
    let f = std::io::BufReader::new(std::fs::File::open(path).expect("file"));
    let mut alpha: Vec<Value> = vec![];
    let (mut states, mut trans, mut mism, mut panics) = (0u64, 0u64, 0u64, 0u64);
    let mut first: Vec<Value> = vec![];
    let mut per_op: std::collections::BTreeMap<String, u64> = Default::default();
    for line in f.lines() {
        let v: Value = serde_json::from_str(&line.unwrap()).expect("json");
        match v["kind"].as_str().unwrap() {
            "alpha" => alpha = v["ops"].as_array().unwrap().clone(),
            "state" => {
                let pre = row_of(&v["pre"]);
                let mut base = Runner::new(std::io::sink());
                base.quiet = true;
                let got0 = guarded(|| {
                    base.m.raw_mut().bus_mut().board_mut().verif_restore(&board_from_sig(&pre));
                    bsig(base.m.bus())
                });
                states += 1;
                if got0 != pre {
                    mism += 1;
                    *per_op.entry("(state)".into()).or_insert(0) += 1;
                    if first.len() < 12 {
                        first.push(json!({"pre": pre, "op": "restore+read", "spec": pre, "impl": got0}));
                    }
                }
                let rows = v["rows"].as_array().unwrap();
                for (i, op) in alpha.iter().enumerate() {
                    let mut r = Runner::new(std::io::sink());
                    r.quiet = true;
                    r.m = base.m.clone();
                    r.exec(op);
                    trans += 1;
                    let exp = row_of(&rows[i]);
                    let got = if r.panics > 0 {
                        panics += 1;
                        vec![-99]
                    } else {
                        guarded(|| bsig(r.m.bus()))
                    };
                    if got != exp {
                        mism += 1;
                        let name = format!("{}{}", op["op"].as_str().unwrap_or(""),
                            op.get("a").map(|a| format!("@{}", a)).unwrap_or_default());
                        let c = per_op.entry(name).or_insert(0);
                        *c += 1;
                        if *c <= 2 && first.len() < 12 {
                            first.push(json!({"pre": pre, "op": op, "spec": exp, "impl": got}));
                        }
                    }
                }
            }
            _ => {}
        }
    }
    println!("{}", json!({"states": states, "transitions": trans, "mismatches": mism, "panics": panics,
        "per_op": per_op, "first": first,
        "sig": "di1,do1,do2,temp,ai1,ai2,ao1,ao2,dasr,daisr,daicr,fan,ud1,ud2,ud3,rdF0,rdF1,rdF2,rdF3"}));
}

/// Clamp rule over f32 bit patterns (`step` = 1 for all 2^32): stored value is the input when it is in
/// [0, 5], 5.0 when above, 0.0 when below or NaN; checked on the three voltage setters.
pub fn clamp_sweep(step: u64) {
    use emulator_2a_lib::machine::{Machine, MachineConfig};
    let mut m = Machine::new(MachineConfig::default());
    let mut n: u64 = 0;
    let mut bad: u64 = 0;
    let mut first: Vec<Value> = vec![];
    let mut classes = [0u64; 4];
    let mut bits: u64 = 0;
    while bits <= u32::MAX as u64 {
        let x = f32::from_bits(bits as u32);
        let (exp, class) = if x.is_nan() {
            (0.0f32, 0)
        } else if x < 0.0 {
            (0.0, 1)
        } else if x > 5.0 {
            (5.0, 2)
        } else {
            (x, 3)
        };
        classes[class] += 1;
        let got = catch_unwind(AssertUnwindSafe(|| {
            m.set_analog_input1(x);
            m.set_analog_input2(x);
            m.set_temp(x);
            let b = m.bus().board();
            [b.analog_inputs()[0], b.analog_inputs()[1], *b.temp()]
        }))
        .unwrap_or([f32::from_bits(0x7fc0_dead); 3]);
        n += 1;
        for (i, g) in got.iter().enumerate() {
            // -0.0 is a numeric zero inside the range: stored as is
            if !(g.to_bits() == exp.to_bits() || (*g == exp && exp == 0.0)) {
                bad += 1;
                if first.len() < 10 {
                    first.push(json!({"bits": bits, "setter": i, "stored_bits": g.to_bits(), "expected_bits": exp.to_bits()}));
                }
            }
        }
        bits += step;
    }
    println!("{}", json!({"patterns": n, "bad": bad, "classes_nan_neg_high_inrange": classes, "first": first}));
}

/// Comparator rule at f32 resolution (below the millivolt grid of Board.tla): after any order of "write DAC byte" and
/// "apply input", the comparator bit equals `reported input > reported DAC voltage` - both sides as the board reports them
/// (the DAC voltage itself is checked against byte / 100 on the grid by the specification).  Inputs are the f32 neighbours
/// of every DAC voltage (0, +-1, +-2 ulp), k/100 spelled as a decimal literal would be, and a few values far away.
pub fn comp_sweep() {
    use emulator_2a_lib::machine::{Machine, MachineConfig};
    fn ulps(v: f32, d: i32) -> f32 {
        let b = v.to_bits() as i64 + d as i64;
        if b < 0 {
            -0.0
        } else {
            f32::from_bits(b as u32)
        }
    }
    let (mut n, mut bad, mut panics) = (0u64, 0u64, 0u64);
    let mut first: Vec<Value> = vec![];
    for which in 0..3u8 {
        // 0: input 1 vs DAC1, 1: input 2 vs DAC2, 2: temperature vs DAC2
        for byte in 0..=255u8 {
            let dac = byte as f32 / 100.0;
            let lit: f32 = format!("{}.{:02}", byte / 100, byte % 100).parse().unwrap();
            let mut inputs = vec![lit, (byte as f32) * 0.01, 0.0, 5.0, 2.5, f32::NAN, f32::INFINITY, -1.0];
            for d in -3..=3 {
                inputs.push(ulps(dac, d));
                inputs.push(ulps(lit, d));
            }
            for x in inputs {
                for order in 0..3u8 {
                    // order 0: DAC then input; 1: input then DAC; 2: input, DAC, same DAC byte again
                    let r = catch_unwind(AssertUnwindSafe(|| {
                        let mut m = Machine::new(MachineConfig::default());
                        let set = |m: &mut Machine| match which {
                            0 => m.set_analog_input1(x),
                            1 => m.set_analog_input2(x),
                            _ => m.set_temp(x),
                        };
                        let port = if which == 0 { 0xF0 } else { 0xF1 };
                        if order == 0 {
                            m.raw_mut().bus_mut().write(port, byte);
                            set(&mut m);
                        } else {
                            // start from the opposite comparator level so that the bit has to move
                            m.raw_mut().bus_mut().write(port, if byte < 128 { 255 } else { 0 });
                            set(&mut m);
                            m.raw_mut().bus_mut().write(port, byte);
                            if order == 2 {
                                m.raw_mut().bus_mut().write(port, byte);
                            }
                        }
                        let b = m.bus().board();
                        let (inp, out, bit) = match which {
                            0 => (b.analog_inputs()[0], b.analog_outputs()[0], b.dasr().bits() & 0b0000_1000 != 0),
                            1 => (b.analog_inputs()[1].max(*b.temp()), b.analog_outputs()[1], b.dasr().bits() & 0b0001_0000 != 0),
                            _ => (b.analog_inputs()[1].max(*b.temp()), b.analog_outputs()[1], b.dasr().bits() & 0b0001_0000 != 0),
                        };
                        let rd = m.bus().read(0xF1);
                        (inp, out, bit, rd == b.dasr().bits())
                    }));
                    n += 1;
                    match r {
                        Ok((inp, out, bit, rd_ok)) => {
                            if bit != (inp > out) || !rd_ok || out.to_bits() != dac.to_bits() {
                                bad += 1;
                                if first.len() < 10 {
                                    first.push(json!({"which": which, "byte": byte, "input_bits": x.to_bits(), "order": order,
                                        "stored_input_bits": inp.to_bits(), "dac_bits": out.to_bits(), "comparator": bit, "expected": inp > out}));
                                }
                            }
                        }
                        Err(_) => {
                            panics += 1;
                            bad += 1;
                            if first.len() < 10 {
                                first.push(json!({"which": which, "byte": byte, "input_bits": x.to_bits(), "order": order, "panic": true}));
                            }
                        }
                    }
                }
            }
        }
    }
    println!("{}", json!({"cases": n, "bad": bad, "panics": panics, "first": first}));
}
