//! Exhaustive comparisons of the pure, finite pieces of the CPU with tables computed by TLC
//! from the specification (S->I over the whole domain).
use emulator_2a_lib::machine::{
    AluInput, AluOutput, AluSelect, Machine, MachineConfig, MicroprogramRam, RegisterNumber, State,
    VerifRaw,
};
use serde_json::{json, Value};
use std::panic::{catch_unwind, AssertUnwindSafe};

pub fn rom_words() -> Vec<u32> {
    MicroprogramRam::CONTENT.iter().map(|w| w.bits()).collect()
}

fn alu_sel(i: u8) -> AluSelect {
    use AluSelect::*;
    [ADDH, A, NOR, ZERO, ADD, ADDS, ADC, ADCS, LSR, RR, RRC, ASR, B, SETC, BH, INVC][i as usize]
}

fn load_json(path: &str) -> Value {
    serde_json::from_str(&std::fs::read_to_string(path).expect("read ref")).expect("json ref")
}

/// Reference: [16][131072] packed out + 256 c + 512 z + 1024 n, index a*512 + b*2 + cin.
pub fn alu_check(path: &str) {
    let r = load_json(path);
    let tab = r.as_array().expect("array");
    let mut exp: Vec<Vec<u64>> = vec![];
    for sel in 0..16usize {
        let row = tab[sel].as_array().expect("row");
        assert_eq!(row.len(), 131072);
        exp.push(row.iter().map(|x| x.as_u64().unwrap()).collect());
    }
    let mut points: u64 = 0;
    let mut calls: u64 = 0;
    let mut mism: u64 = 0;
    let mut first: Vec<Value> = vec![];
    let mut per_sel = vec![0u64; 16];
    let mut bad = vec![false; 16 * 131072];
    let eval = |sel: u8, a: u32, b: u32, cin: u32| -> u64 {
        match catch_unwind(AssertUnwindSafe(|| {
            let o = AluOutput::from_input(&AluInput::new(a as u8, b as u8, cin == 1), &alu_sel(sel));
            o.output() as u64 + 256 * o.carry_out() as u64 + 512 * o.zero_out() as u64 + 1024 * o.negative_out() as u64
        })) {
            Ok(g) => g,
            Err(_) => 1 << 20,
        }
    };
    // the ALU is a FUNCTION of (function, A, B, carry-in): every point is evaluated in several call orders and right after
    // its "neighbours" (operands swapped, carry-in flipped, another function), so that a result which depends on earlier
    // calls (cache, leftover state) shows up.  pass 0: ascending; 1: descending; 2: after the swapped operands; 3: after
    // the flipped carry-in (both directions); 4: after the same operands under every other function; 5: random order.
    let mut check = |pass: u32, sel: u8, a: u32, b: u32, cin: u32, got: u64, first: &mut Vec<Value>| {
        let idx = (a * 512 + b * 2 + cin) as usize;
        let e = exp[sel as usize][idx];
        if got != e && !bad[sel as usize * 131072 + idx] {
            bad[sel as usize * 131072 + idx] = true;
            mism += 1;
            per_sel[sel as usize] += 1;
            if per_sel[sel as usize] <= 3 {
                first.push(json!({"sel": sel, "a": a, "b": b, "cin": cin, "spec": e, "impl": got, "call_order": pass}));
            }
        }
    };
    for sel in 0..16u8 {
        for a in 0..=255u32 {
            for b in 0..=255u32 {
                for cin in 0..2u32 {
                    points += 1;
                    calls += 1;
                    let g = eval(sel, a, b, cin);
                    check(0, sel, a, b, cin, g, &mut first);
                }
            }
        }
    }
    for sel in (0..16u8).rev() {
        for a in (0..=255u32).rev() {
            for b in (0..=255u32).rev() {
                for cin in (0..2u32).rev() {
                    calls += 1;
                    let g = eval(sel, a, b, cin);
                    check(1, sel, a, b, cin, g, &mut first);
                }
            }
        }
    }
    for sel in 0..16u8 {
        for a in 0..=255u32 {
            for b in 0..=255u32 {
                for cin in 0..2u32 {
                    calls += 4;
                    let _ = eval(sel, b, a, cin);
                    let g = eval(sel, a, b, cin);
                    check(2, sel, a, b, cin, g, &mut first);
                    let _ = eval(sel, a, b, 1 - cin);
                    let g = eval(sel, a, b, cin);
                    check(3, sel, a, b, cin, g, &mut first);
                }
            }
        }
    }
    for a in (0..=255u32).step_by(3) {
        for b in (0..=255u32).step_by(5) {
            for cin in 0..2u32 {
                for s1 in 0..16u8 {
                    for s2 in 0..16u8 {
                        calls += 2;
                        let _ = eval(s1, a, b, cin);
                        let g = eval(s2, a, b, cin);
                        check(4, s2, a, b, cin, g, &mut first);
                    }
                }
            }
        }
    }
    let mut x: u64 = 0x9E3779B97F4A7C15;
    for _ in 0..6_000_000u32 {
        x ^= x << 13;
        x ^= x >> 7;
        x ^= x << 17;
        let (sel, a, b, cin) = ((x & 15) as u8, ((x >> 8) & 255) as u32, ((x >> 20) & 255) as u32, ((x >> 32) & 1) as u32);
        calls += 1;
        let g = eval(sel, a, b, cin);
        check(5, sel, a, b, cin, g, &mut first);
    }
    // the 4-bit select code of each function as the control store addresses it (MALUS3..0)
    let codes: Vec<u8> = (0..16u8).map(|i| alu_sel(i) as u8).collect();
    // the ALU's carry / zero / negative outputs as the rest of the machine sees them (the signal lines feeding the next-address logic)
    let mut lines_bad: Vec<Value> = vec![];
    {
        let mut m = fresh();
        let mut raw = base_raw();
        for maddr in [0usize, 6, 78, 240, 392, 511] {
            for k in 0..8u8 {
                raw.maddr = maddr;
                raw.alu_carry = k & 4 != 0;
                raw.alu_zero = k & 2 != 0;
                raw.alu_negative = k & 1 != 0;
                raw.state = State::Running;
                m.raw_mut().verif_restore(&raw);
                let s = m.signals();
                let got = (s.carry_out(), s.zero_out(), s.negative_out());
                if got != (raw.alu_carry, raw.alu_zero, raw.alu_negative) && lines_bad.len() < 5 {
                    lines_bad.push(json!({"maddr": maddr, "alu_outputs_czn": [raw.alu_carry, raw.alu_zero, raw.alu_negative],
                        "signal_lines_czn": [got.0, got.1, got.2]}));
                }
            }
        }
    }
    println!("{}", json!({"points": points, "calls": calls, "mismatches": mism, "per_sel": per_sel, "first": first, "codes": codes, "lines_bad": lines_bad}));
}

fn fresh() -> Machine {
    Machine::new(MachineConfig::default())
}

fn base_raw() -> VerifRaw {
    fresh().verif_snapshot()
}

/// Reference: [512][256] packed: selA + 8 selB + 64 selW + 512 constB + 2^17 alus
///   + 2^21 (busen, buswr, mrgwe, mchflg, maluia, maluib, mac0..3 as bits 21..30)
pub fn decode_check(path: &str, mac_only: bool) {
    let mask: u64 = if mac_only { 0xF << 27 } else { u64::MAX };
    let r = load_json(path);
    let tab = r.as_array().expect("array");
    let mut m = fresh();
    let mut raw = base_raw();
    let mut rows: u64 = 0;
    let mut mism: u64 = 0;
    let mut first: Vec<Value> = vec![];
    for maddr in 0..512usize {
        let row = tab[maddr].as_array().expect("row");
        for ir in 0..256usize {
            raw.maddr = maddr;
            raw.ir = ir as u8;
            m.raw_mut().verif_restore(&raw);
            let back = m.verif_snapshot();
            assert!(back.maddr == maddr && back.ir == ir as u8, "restore/readback");
            let s = m.signals();
            let sa: usize = s.selected_register_a().into();
            let sb: usize = s.selected_register_b().into();
            let sw: usize = s.selected_register_for_writing().into();
            let got: u64 = sa as u64
                + 8 * sb as u64
                + 64 * sw as u64
                + 512 * s.alu_input_b_constant() as u64
                + (1 << 17) * (s.alu_select() as u64)
                + (1 << 21) * s.busen() as u64
                + (1 << 22) * s.buswr() as u64
                + (1 << 23) * s.mrgwe() as u64
                + (1 << 24) * s.mchflg() as u64
                + (1 << 25) * s.maluia() as u64
                + (1 << 26) * s.maluib() as u64
                + (1 << 27) * s.mac0() as u64
                + (1 << 28) * s.mac1() as u64
                + (1 << 29) * s.mac2() as u64
                + (1 << 30) * s.mac3() as u64;
            let exp = row[ir].as_u64().unwrap() & mask;
            let got = got & mask;
            rows += 1;
            if got != exp {
                mism += 1;
                if first.len() < 20 {
                    first.push(json!({"maddr": maddr, "ir": ir, "spec": exp, "impl": got}));
                }
            }
        }
    }
    println!("{}", json!({"rows": rows, "mismatches": mism, "first": first}));
}

/// Reference: {"classes":[c...], "table": [[...2^17 packed next + 512*il1]...]} where class =
/// (word >> 19) & 0xFF = MAC2..0 NA4..0 plus MAC3 dropped; input index =
/// ir*512 + f*32 + ac*16 + az*8 + an*4 + pei*2 + pli  (f = FR low 4 bits C,Z,N,IE).
/// Every one of the 512 x 2^17 combinations is forced onto the real machine.
pub fn nextaddr_check(path: &str, sets_only: bool) {
    let r = load_json(path);
    let classes: Vec<u64> = r["classes"].as_array().unwrap().iter().map(|x| x.as_u64().unwrap()).collect();
    let table = r["table"].as_array().unwrap();
    let rows_of: Vec<Vec<u32>> = table
        .iter()
        .map(|row| row.as_array().unwrap().iter().map(|x| x.as_u64().unwrap() as u32).collect())
        .collect();
    let rom = rom_words();
    let mut m = fresh();
    let mut raw = base_raw();
    let mut rows: u64 = 0;
    let mut mism: u64 = 0;
    let mut missing_class: u64 = 0;
    let mut first: Vec<Value> = vec![];
    for maddr in 0..512usize {
        let class = ((rom[maddr] >> 19) & 0xFF) as u64;
        let ci = match classes.iter().position(|c| *c == class) {
            Some(i) => i,
            None => {
                missing_class += 1;
                continue;
            }
        };
        let row = &rows_of[ci];
        for ir in 0..256usize {
            let mut impl_set = [false; 512];
            let mut spec_set = [false; 512];
            for rest in 0..512usize {
                let f = (rest >> 5) & 15;
                raw.maddr = maddr;
                raw.ir = ir as u8;
                raw.alu_carry = rest & 16 != 0;
                raw.alu_zero = rest & 8 != 0;
                raw.alu_negative = rest & 4 != 0;
                raw.pending_edge_interrupt = rest & 2 != 0;
                raw.pending_level_interrupt = rest & 1 != 0;
                raw.state = State::Running;
                m.raw_mut().verif_restore(&raw);
                // upper FR bits set to a non-zero pattern: they must not matter
                m.raw_mut().registers_mut().set(RegisterNumber::R4, (f as u8) | 0xA0);
                let s = m.signals();
                let got = s.next_microprogram_address() as u32 + 512 * s.interrupt_logic_1() as u32;
                let exp = row[ir * 512 + rest];
                rows += 1;
                if sets_only {
                    impl_set[(got & 511) as usize] = true;
                    spec_set[(exp & 511) as usize] = true;
                } else if got != exp {
                    mism += 1;
                    if first.len() < 20 {
                        first.push(json!({"maddr": maddr, "ir": ir, "f": f, "ac": raw.alu_carry, "az": raw.alu_zero,
                            "an": raw.alu_negative, "pei": raw.pending_edge_interrupt, "pli": raw.pending_level_interrupt,
                            "spec": exp, "impl": got}));
                    }
                }
            }
            if sets_only && impl_set[..] != spec_set[..] {
                mism += 1;
                if first.len() < 20 {
                    let a: Vec<usize> = (0..512).filter(|i| impl_set[*i]).collect();
                    let b: Vec<usize> = (0..512).filter(|i| spec_set[*i]).collect();
                    first.push(json!({"maddr": maddr, "ir": ir, "impl_successors": a, "spec_successors": b}));
                }
            }
        }
    }
    println!("{}", json!({"rows": rows, "mismatches": mism, "missing_class": missing_class, "first": first}));
}

/// MUL / DIV loop termination on the real machine for all 65 536 operand pairs x carry-in
/// (registers R0 = rd, R1 = rs) and all 256 x carry for rd = rs.  Prints the maximal edge count.
pub fn muldiv_term() {
    use crate::scenario::bytecode_of;
    let regn = [RegisterNumber::R0, RegisterNumber::R1, RegisterNumber::R2, RegisterNumber::R3];
    let mut out = vec![];
    for (name, base) in [("MUL", 0xB0u8), ("DIV", 0xC0u8)].iter() {
        let mut max_edges: u64 = 0;
        let mut runs: u64 = 0;
        let mut nonterm: Vec<Value> = vec![];
        for rd in 0..4usize {
            for rs in 0..4usize {
                let op = *base | ((rs as u8) << 2) | rd as u8;
                let mut tmpl = fresh();
                tmpl.load(bytecode_of(&[op, 0x01], 0, 255));
                // reach the boundary at which `op` is about to execute (PC = 0 still pending increment)
                for a in 0..=255u8 {
                    for b in 0..=255u8 {
                        if rd == rs && b != a {
                            continue;
                        }
                        // PC as an operand cannot take arbitrary values at this point: it is 1 when read
                        if (rd == 3 && a != 1) || (rs == 3 && b != 1) {
                            continue;
                        }
                        for cin in 0..2u8 {
                            let mut m = tmpl.clone();
                            if rd != 3 {
                                m.raw_mut().registers_mut().set(regn[rd], a);
                            }
                            if rs != 3 && rs != rd {
                                m.raw_mut().registers_mut().set(regn[rs], b);
                            }
                            m.raw_mut().registers_mut().set(RegisterNumber::R4, cin);
                            let mut n: u64 = 0;
                            let mut boundaries = 0;
                            let mut left = false;
                            // terminates = returns to an instruction boundary (twice: own fetch, next fetch) or halts
                            while m.state() == State::Running && n < 20000 && boundaries < 2 {
                                m.raw_mut().trigger_clock_edge();
                                n += 1;
                                if !m.is_instruction_done() {
                                    left = true;
                                } else if left {
                                    boundaries += 1;
                                    left = false;
                                }
                            }
                            runs += 1;
                            if n >= 20000 {
                                if nonterm.len() < 5 {
                                    nonterm.push(json!({"op": name, "opcode": op, "rd": rd, "rs": rs, "a": a, "b": b, "cin": cin, "edges": n}));
                                }
                            }
                            if n > max_edges {
                                max_edges = n;
                            }
                        }
                    }
                }
            }
        }
        out.push(json!({"op": name, "runs": runs, "max_edges": max_edges, "nonterminating": nonterm}));
    }
    println!("{}", json!(out));
}

/// Reference: [512][256] ir' + 256 * state code after ONE real clock edge from
/// (maddr, IR = 85, last bus byte b), everything else as after reset.
pub fn irstep_check(path: &str) {
    let r = load_json(path);
    let tab = r.as_array().expect("array");
    let mut rows: u64 = 0;
    let mut mism: u64 = 0;
    let mut first: Vec<Value> = vec![];
    for maddr in 0..512usize {
        let row = tab[maddr].as_array().expect("row");
        for b in 0..256usize {
            let mut m = fresh();
            let mut raw = base_raw();
            raw.maddr = maddr;
            raw.ir = 85;
            raw.last_bus_read = b as u8;
            m.raw_mut().verif_restore(&raw);
            let got = match catch_unwind(AssertUnwindSafe(|| {
                m.raw_mut().trigger_clock_edge();
                let s = m.verif_snapshot();
                s.ir as u64 + 256 * match m.state() { State::Running => 0, State::Stopped => 1, State::ErrorStopped => 2 }
            })) {
                Ok(g) => g,
                Err(_) => 1 << 20,
            };
            let exp = row[b].as_u64().unwrap();
            rows += 1;
            if got != exp {
                mism += 1;
                if first.len() < 10 {
                    first.push(json!({"maddr": maddr, "bus_byte": b, "spec_ir": exp % 256, "spec_state": exp / 256,
                        "impl_ir": got % 256, "impl_state": got / 256}));
                }
            }
        }
    }
    println!("{}", json!({"rows": rows, "mismatches": mism, "first": first}));
}
