//! Projection of the real machine onto the abstract state of the TLA+ specification.
//! This code is part of the trusted base: it only reads (public getters + verif hooks).
use emulator_2a_lib::machine::{Board, Bus, Machine, RawMachine, State, StepMode};
use emulator_2a_lib::parser::{Programsize, Stacksize};
use serde_json::{json, Value};

pub const NAN_V: i64 = -1_000_000;
pub const NEG_INF_V: i64 = -2_000_000;
pub const POS_INF_V: i64 = 2_000_000;
/// Marks a stored voltage that is not on the millivolt grid (no spec state has it).
pub const OFF_GRID: i64 = -7_777_777;

/// Voltage code of the specification -> f32 applied to the real board.
pub fn volt_from_code(code: i64) -> f32 {
    match code {
        NAN_V => f32::NAN,
        NEG_INF_V => f32::NEG_INFINITY,
        POS_INF_V => f32::INFINITY,
        k => k as f32 / 1000.0,
    }
}

/// Stored f32 voltage -> millivolt, exact or OFF_GRID.
pub fn mv_of(v: f32) -> i64 {
    if !v.is_finite() {
        return OFF_GRID;
    }
    let k = (v * 1000.0).round() as i64;
    if (k as f32 / 1000.0) == v {
        k
    } else {
        OFF_GRID
    }
}

/// DAC output voltage byte/100.0 -> millivolt (10 * byte), exact or OFF_GRID.
pub fn mv_of_dac(v: f32) -> i64 {
    if !v.is_finite() {
        return OFF_GRID;
    }
    let b = (v * 100.0).round() as i64;
    if (0..=255).contains(&b) && (b as u8 as f32 / 100.0) == v {
        10 * b
    } else {
        OFF_GRID
    }
}

pub fn state_name(s: State) -> &'static str {
    match s {
        State::Running => "Running",
        State::Stopped => "Stopped",
        State::ErrorStopped => "ErrorStopped",
    }
}

pub fn ss_code(s: Stacksize) -> i64 {
    match s {
        Stacksize::_0 => 0,
        Stacksize::_16 => 16,
        Stacksize::_32 => 32,
        Stacksize::_48 => 48,
        Stacksize::_64 => 64,
        Stacksize::NotSet => -1,
    }
}

pub fn ss_from_code(c: i64) -> Stacksize {
    match c {
        0 => Stacksize::_0,
        16 => Stacksize::_16,
        32 => Stacksize::_32,
        48 => Stacksize::_48,
        64 => Stacksize::_64,
        _ => Stacksize::NotSet,
    }
}

pub fn ps_code(p: Programsize) -> i64 {
    match p {
        Programsize::Size(n) => n as i64,
        Programsize::Auto => -1,
        Programsize::NotSet => -2,
    }
}

pub fn ps_from_code(c: i64) -> Programsize {
    match c {
        -1 => Programsize::Auto,
        -2 => Programsize::NotSet,
        n => Programsize::Size(n as u8),
    }
}

pub fn ram_sum(ram: &[u8; 0xF0]) -> u64 {
    let mut sum: u64 = 0;
    for (i, b) in ram.iter().enumerate() {
        sum = (sum + (i as u64 + 1) * (*b as u64)) % 65521;
    }
    sum
}

pub fn board_json(b: &Board) -> Value {
    json!({
        "di1": *b.digital_input1(),
        "do1": *b.digital_output1(),
        "do2": *b.digital_output2(),
        "temp": mv_of(*b.temp()),
        "ai1": mv_of(b.analog_inputs()[0]),
        "ai2": mv_of(b.analog_inputs()[1]),
        "ao1": mv_of_dac(b.analog_outputs()[0]),
        "ao2": mv_of_dac(b.analog_outputs()[1]),
        "dasr": b.dasr().bits(),
        "daisr": b.daisr().bits(),
        "daicr": b.daicr().bits(),
        "fan": *b.fan_rpm() as u64,
        "ud1": b.uio_dir()[0],
        "ud2": b.uio_dir()[1],
        "ud3": b.uio_dir()[2],
    })
}

/// Bus fields (without RAM) merged into `o`.
pub fn bus_fields(bus: &Bus, o: &mut serde_json::Map<String, Value>) {
    let s = bus.verif_snapshot();
    o.insert("inr".into(), json!([bus.read(0xFC), bus.read(0xFD), bus.read(0xFE), bus.read(0xFF)]));
    o.insert("outr".into(), json!([bus.output_fe(), bus.output_ff()]));
    o.insert("micr".into(), json!(s.micr));
    o.insert("misr".into(), json!(s.misr));
    o.insert("ucr".into(), json!(s.ucr));
    o.insert("usr".into(), json!(s.usr));
    o.insert("usend".into(), json!(s.uart_send));
    o.insert("urecv".into(), json!(s.uart_recv));
    o.insert("ten".into(), json!(s.timer_enabled));
    o.insert("td1".into(), json!(s.timer_div1 as u64));
    o.insert("td2".into(), json!(s.timer_div2 as u64));
    o.insert("td3".into(), json!(s.timer_div3 as u64));
    o.insert("bd".into(), board_json(bus.board()));
    o.insert("ramsum".into(), json!(ram_sum(bus.memory())));
}

pub fn raw_fields(m: &RawMachine, o: &mut serde_json::Map<String, Value>) {
    let s = m.verif_snapshot();
    o.insert("maddr".into(), json!(s.maddr as u64));
    o.insert("ir".into(), json!(s.ir));
    o.insert("regs".into(), json!(m.registers().content().to_vec()));
    o.insert(
        "prw".into(),
        json!(s.pending_register_write.map(|r| r as i64).unwrap_or(-1)),
    );
    o.insert("pfw".into(), json!(s.pending_flag_write));
    o.insert("pei".into(), json!(s.pending_edge_interrupt));
    o.insert("pli".into(), json!(s.pending_level_interrupt));
    o.insert("wait".into(), json!(s.pending_wait_for_memory));
    o.insert("st".into(), json!(state_name(m.state())));
    o.insert("aout".into(), json!(s.alu_output));
    o.insert("ac".into(), json!(s.alu_carry));
    o.insert("az".into(), json!(s.alu_zero));
    o.insert("an".into(), json!(s.alu_negative));
    o.insert("lbr".into(), json!(s.last_bus_read));
    o.insert("ss".into(), json!(ss_code(m.stacksize())));
    // RawMachine treats Auto and NotSet alike ("no program loaded"): both project to -1
    let ps = ps_code(m.programsize());
    o.insert("ps".into(), json!(if ps < 0 { -1 } else { ps }));
    o.insert("done".into(), json!(m.is_instruction_done()));
}

pub fn mode_name(m: StepMode) -> &'static str {
    match m {
        StepMode::Real => "Real",
        StepMode::Assembly => "Assembly",
    }
}

/// Full projection of a machine; `with_ram` adds the 240 RAM bytes.
pub fn machine_json(m: &Machine, with_ram: bool) -> Value {
    let mut o = serde_json::Map::new();
    raw_fields(m, &mut o);
    bus_fields(m.bus(), &mut o);
    o.insert("mode".into(), json!(mode_name(m.step_mode())));
    if with_ram {
        o.insert("ram".into(), json!(m.bus().memory().to_vec()));
    }
    Value::Object(o)
}

pub fn bus_json(bus: &Bus, with_ram: bool) -> Value {
    let mut o = serde_json::Map::new();
    bus_fields(bus, &mut o);
    if with_ram {
        o.insert("ram".into(), json!(bus.memory().to_vec()));
    }
    Value::Object(o)
}
