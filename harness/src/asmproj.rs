//! Projection of the real parser's AST / the real translator's output to the JSON shapes of
//! Mrasm.tla / Asm.tla (trusted base: reads public types only).
use emulator_2a_lib::parser::*;
use serde_json::{json, Value};

pub fn cps(s: &str) -> Value {
    json!(s.chars().map(|c| c as u32).collect::<Vec<u32>>())
}
fn comment(c: &Option<Comment>) -> Value {
    match c {
        Some(s) => cps(s),
        None => json!([-1]),
    }
}
fn reg(r: &Register) -> u8 {
    match r {
        Register::R0 => 0,
        Register::R1 => 1,
        Register::R2 => 2,
        Register::R3 => 3,
    }
}
fn konst(c: &Constant) -> Value {
    match c {
        Constant::Constant(n) => json!({"n": n}),
        Constant::Label(l) => json!({"l": cps(l)}),
    }
}
fn mem(m: &MemAddress) -> Value {
    match m {
        MemAddress::Constant(c) => json!({"k": "mc", "c": konst(c)}),
        MemAddress::Register(r) => json!({"k": "mr", "r": reg(r)}),
    }
}
fn r_(r: &Register) -> Value {
    json!({"k": "r", "r": reg(r)})
}
fn src(s: &Source) -> Value {
    match s {
        Source::Register(r) => r_(r),
        Source::MemAddress(m) => mem(m),
        Source::Constant(c) => json!({"k": "c", "c": konst(c)}),
        Source::RegisterDi(RegisterDi(r)) => json!({"k": "di", "r": reg(r)}),
        Source::RegisterDdi(RegisterDdi(r)) => json!({"k": "ddi", "r": reg(r)}),
    }
}
fn dst(d: &Destination) -> Value {
    match d {
        Destination::Register(r) => r_(r),
        Destination::MemAddress(m) => mem(m),
        Destination::RegisterDi(RegisterDi(r)) => json!({"k": "di", "r": reg(r)}),
        Destination::RegisterDdi(RegisterDdi(r)) => json!({"k": "ddi", "r": reg(r)}),
    }
}
fn n_(n: i64) -> Value {
    json!({"k": "n", "n": n})
}
fn l_(l: &str) -> Value {
    json!({"k": "l", "l": cps(l)})
}

pub fn instruction(i: &Instruction) -> (String, Vec<Value>) {
    use Instruction::*;
    let one = |m: &str, r: &Register| (m.to_string(), vec![r_(r)]);
    let two = |m: &str, a: &Register, b: &Register| (m.to_string(), vec![r_(a), r_(b)]);
    let ds = |m: &str, d: &Destination, s: &Source| (m.to_string(), vec![dst(d), src(s)]);
    let j = |m: &str, l: &Label| (m.to_string(), vec![l_(l)]);
    let z = |m: &str| (m.to_string(), vec![]);
    match i {
        AsmOrigin(n) => (".ORG".into(), vec![n_(*n as i64)]),
        AsmByte(n) => (".BYTE".into(), vec![n_(*n as i64)]),
        AsmDefineBytes(v) => (".DB".into(), v.iter().map(|x| n_(*x as i64)).collect()),
        AsmDefineWords(v) => (".DW".into(), v.iter().map(|x| n_(*x as i64)).collect()),
        AsmEquals(l, n) => (".EQU".into(), vec![l_(l), n_(*n as i64)]),
        AsmStacksize(s) => ("*STACKSIZE".into(), vec![n_(crate::proj::ss_code(*s))]),
        AsmProgramsize(p) => ("*PROGRAMSIZE".into(), vec![n_(crate::proj::ps_code(*p))]),
        Clr(r) => one("CLR", r),
        Add(a, b) => two("ADD", a, b),
        Adc(a, b) => two("ADC", a, b),
        Sub(a, b) => two("SUB", a, b),
        Mul(a, b) => two("MUL", a, b),
        Div(a, b) => two("DIV", a, b),
        Inc(r) => one("INC", r),
        Dec(s) => ("DEC".into(), vec![src(s)]),
        Neg(r) => one("NEG", r),
        And(a, b) => two("AND", a, b),
        Or(a, b) => two("OR", a, b),
        Xor(a, b) => two("XOR", a, b),
        Com(r) => one("COM", r),
        Bits(d, s) => ds("BITS", d, s),
        Bitc(d, s) => ds("BITC", d, s),
        Tst(r) => one("TST", r),
        Cmp(d, s) => ds("CMP", d, s),
        Bitt(d, s) => ds("BITT", d, s),
        Lsr(r) => one("LSR", r),
        Asr(r) => one("ASR", r),
        Lsl(r) => one("LSL", r),
        Rrc(r) => one("RRC", r),
        Rlc(r) => one("RLC", r),
        Mov(d, s) => ds("MOV", d, s),
        LdConstant(r, c) => ("LD".into(), vec![r_(r), json!({"k": "c", "c": konst(c)})]),
        LdMemAddress(r, m) => ("LD".into(), vec![r_(r), mem(m)]),
        St(m, r) => ("ST".into(), vec![mem(m), r_(r)]),
        Push(r) => one("PUSH", r),
        Pop(r) => one("POP", r),
        PushF => z("PUSHF"),
        PopF => z("POPF"),
        Ldsp(s) => ("LDSP".into(), vec![src(s)]),
        Ldfr(s) => ("LDFR".into(), vec![src(s)]),
        Jmp(l) => j("JMP", l),
        Jcs(l) => j("JCS", l),
        Jcc(l) => j("JCC", l),
        Jzs(l) => j("JZS", l),
        Jzc(l) => j("JZC", l),
        Jns(l) => j("JNS", l),
        Jnc(l) => j("JNC", l),
        Jr(l) => j("JR", l),
        Call(l) => j("CALL", l),
        Ret => z("RET"),
        RetI => z("RETI"),
        Stop => z("STOP"),
        Nop => z("NOP"),
        Ei => z("EI"),
        Di => z("DI"),
    }
}

pub fn line(l: &Line) -> Value {
    match l {
        Line::Empty(c) => json!({"t": "empty", "c": comment(c)}),
        Line::Label(lb, c) => json!({"t": "label", "label": cps(lb), "c": comment(c)}),
        Line::Instruction(i, c) => {
            let (m, ops) = instruction(i);
            json!({"t": "ins", "m": cps(&m), "ops": ops, "c": comment(c)})
        }
    }
}

pub fn asm(a: &Asm) -> Value {
    json!({"hc": comment(&a.comment_after_shebang), "ast": a.lines.iter().map(line).collect::<Vec<_>>()})
}
