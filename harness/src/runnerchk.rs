//! C12 S->I: run configurations enumerated by TLC are executed by the real RunnerConfig::run and
//! RunExpectations::verify; final machine, cycle count and every verification outcome are compared.
use crate::proj::machine_json;
use crate::replay::subset_diff;
use emulator_2a_lib::machine::{MachineConfig, State};
use emulator_2a_lib::runner::{RunExpectationsBuilder, RunnerConfigBuilder, VerificationError};
use serde_json::{json, Value};
use std::io::BufRead;
use std::panic::{catch_unwind, AssertUnwindSafe};

pub fn source_of(image: &[u8]) -> String {
    let mut s = String::from("#! mrasm\n*STACKSIZE 16\n");
    for chunk in image.chunks(8) {
        let items: Vec<String> = chunk.iter().map(|b| format!("0x{:02X}", b)).collect();
        s.push_str(&format!("\t.DB {}\n", items.join(", ")));
    }
    s
}

fn usizes(v: &Value) -> Vec<usize> {
    v.as_array().map(|a| a.iter().map(|x| x.as_u64().unwrap() as usize).collect()).unwrap_or_default()
}

pub fn check(path: &str) {
    let f = std::io::BufReader::new(std::fs::File::open(path).expect("file"));
    let mut exps: Vec<Value> = vec![];
    let (mut cases, mut mism, mut verifs) = (0u64, 0u64, 0u64);
    let mut first: Vec<Value> = vec![];
    for line in f.lines() {
        let v: Value = serde_json::from_str(&line.unwrap()).expect("json");
        if v.get("kind").and_then(|k| k.as_str()) == Some("exps") {
            exps = v["exps"].as_array().unwrap().clone();
            continue;
        }
        let image: Vec<u8> = v["image"].as_array().unwrap().iter().map(|b| b.as_u64().unwrap() as u8).collect();
        let src = source_of(&image);
        let inr: Vec<u8> = v["inr"].as_array().unwrap().iter().map(|b| b.as_u64().unwrap() as u8).collect();
        let mut mc = MachineConfig::default();
        mc.input_fc = inr[0];
        mc.input_fd = inr[1];
        mc.input_fe = inr[2];
        mc.input_ff = inr[3];
        if let Some(b) = v.get("bd") {
            let g = |k: &str| b[k].as_i64().unwrap_or(0);
            let t = |k: &str| b[k].as_bool().unwrap_or(false);
            mc.digital_input1 = g("di1") as u8;
            mc.temp = crate::proj::volt_from_code(g("temp"));
            mc.analog_input1 = crate::proj::volt_from_code(g("ai1"));
            mc.analog_input2 = crate::proj::volt_from_code(g("ai2"));
            mc.jumper1 = t("j1");
            mc.jumper2 = t("j2");
            mc.universal_input_output1 = t("uio1");
            mc.universal_input_output2 = t("uio2");
            mc.universal_input_output3 = t("uio3");
        }
        let cfg = RunnerConfigBuilder::default()
            .with_max_cycles(v["n"].as_u64().unwrap() as usize)
            .with_program(&src)
            .with_machine_config(mc)
            .with_interrupts(usizes(&v["ints"]))
            .with_resets(usizes(&v["resets"]))
            .build()
            .unwrap();
        cases += 1;
        let mut d: Vec<String> = vec![];
        let r = catch_unwind(AssertUnwindSafe(|| cfg.run()));
        match r {
            Err(_) => d.push("panic in RunnerConfig::run".into()),
            Ok(Err(e)) => d.push(format!("parse error: {}", e)),
            Ok(Ok(res)) => {
                if res.emulated_cycles as u64 != v["cycles"].as_u64().unwrap() {
                    d.push(format!("cycles: spec {} impl {}", v["cycles"], res.emulated_cycles));
                }
                subset_diff(&v["s"], &machine_json(&res.machine, false), "", &mut d);
                let codes = v["ver"].as_array().unwrap();
                for (k, e) in exps.iter().enumerate() {
                    let mut b = RunExpectationsBuilder::default();
                    match e["st"].as_str().unwrap() {
                        "Running" => {
                            b.expect_state(State::Running);
                        }
                        "Stopped" => {
                            b.expect_state(State::Stopped);
                        }
                        "ErrorStopped" => {
                            b.expect_state(State::ErrorStopped);
                        }
                        _ => {}
                    }
                    if e["fe"].as_i64().unwrap() >= 0 {
                        b.expect_output_fe(e["fe"].as_i64().unwrap() as u8);
                    }
                    if e["ff"].as_i64().unwrap() >= 0 {
                        b.expect_output_ff(e["ff"].as_i64().unwrap() as u8);
                    }
                    let got = match b.build().unwrap().verify(&res) {
                        Ok(()) => 0,
                        Err(VerificationError::StateMismatch { .. }) => 1,
                        Err(VerificationError::OutputFeMismatch { .. }) => 2,
                        Err(VerificationError::OutputFfMismatch { .. }) => 3,
                    };
                    verifs += 1;
                    let exp = codes[k].as_i64().unwrap();
                    // success / failure is what the property states; which mismatch is reported first is informational
                    if (got == 0) != (exp == 0) {
                        d.push(format!("verify {}: spec code {} impl code {}", e, exp, got));
                    }
                }
            }
        }
        if !d.is_empty() {
            mism += 1;
            if first.len() < 10 {
                first.push(json!({"p": v["p"], "n": v["n"], "ints": v["ints"], "resets": v["resets"], "inr": v["inr"], "diff": d}));
            }
        }
    }
    println!("{}", json!({"cases": cases, "verifications": verifs, "mismatches": mism, "first": first}));
}
