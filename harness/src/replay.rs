//! S->I replay: behaviours enumerated by TLC (action sequence + expected abstract post-state)
//! are executed on the real machine and the projection is compared field by field.
use crate::proj::machine_json;
use crate::scenario::Runner;
use serde_json::{json, Value};
use std::io::BufRead;

/// Every key present in `exp` must be present and equal in `act` (recursively for objects).
pub fn subset_diff(exp: &Value, act: &Value, path: &str, out: &mut Vec<String>) {
    match (exp, act) {
        (Value::Object(e), Value::Object(a)) => {
            for (k, v) in e {
                match a.get(k) {
                    Some(x) => subset_diff(v, x, &format!("{}.{}", path, k), out),
                    None => out.push(format!("{}.{} missing", path, k)),
                }
            }
        }
        _ => {
            if exp != act {
                out.push(format!("{}: spec {} impl {}", path, exp, act));
            }
        }
    }
}

/// Lines: {"h":[op...], "s":{expected fields}, optional "pre":[op...] (setup ops, not compared)}
pub fn replay_file(path: &str) {
    let f = std::io::BufReader::new(std::fs::File::open(path).expect("replay file"));
    let mut cases: u64 = 0;
    let mut ops: u64 = 0;
    let mut mism: u64 = 0;
    let mut panics: u64 = 0;
    let mut first: Vec<Value> = vec![];
    for line in f.lines() {
        let line = line.unwrap();
        if line.trim().is_empty() {
            continue;
        }
        let v: Value = serde_json::from_str(&line).expect("json case");
        let mut r = Runner::new(std::io::sink());
        r.quiet = true;
        if let Some(pre) = v.get("pre").and_then(|x| x.as_array()) {
            for op in pre {
                r.exec(op);
            }
        }
        let h = v.get("h").and_then(|x| x.as_array()).cloned().unwrap_or_default();
        for op in &h {
            r.exec(op);
            ops += 1;
        }
        cases += 1;
        let mut d = vec![];
        if r.panics > 0 || r.hangs > 0 {
            panics += 1;
            d.push(format!("panic/hang during replay ({} panics, {} hangs)", r.panics, r.hangs));
        } else {
            match std::panic::catch_unwind(std::panic::AssertUnwindSafe(|| machine_json(&r.m, true))) {
                Ok(act) => subset_diff(v.get("s").unwrap_or(&Value::Null), &act, "", &mut d),
                Err(_) => {
                    panics += 1;
                    d.push("panic while reading the state back".to_string());
                }
            }
        }
        if !d.is_empty() {
            mism += 1;
            if first.len() < 10 {
                first.push(json!({"case": v, "diff": d}));
            }
        }
    }
    println!("{}", json!({"cases": cases, "ops": ops, "mismatches": mism, "panics": panics, "first": first}));
    std::process::exit(0);
}
