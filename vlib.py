"""Shared machinery of the /verif checks: build, ROM extraction, TLC runs, evidence, findings."""
import hashlib
import json
import os
import re
import shutil
import subprocess
import sys
import time

VERIF = os.path.dirname(os.path.abspath(__file__))
REPO = "/repo"
WORK = os.path.join(VERIF, "work")      # scratch of the running check (./check points it at work/run/<ID>-<tier>: checks may run concurrently)
WORKROOT = WORK                         # shared: cargo target directories, generated modules
GEN = os.path.join(WORK, "gen")
SPEC = os.path.join(VERIF, "spec")
HARNESS = os.path.join(VERIF, "harness")
VH = os.path.join(WORK, "target", "release", "vh")
EVID = os.path.join(VERIF, "evidence")
REPLAYS = os.path.join(VERIF, "replays")
JAR = "/opt/veriftools/tla/tla2tools.jar:/opt/veriftools/tla/CommunityModules-deps.jar"
NCPU = os.cpu_count() or 4


class ToolError(Exception):
    pass


def log(*a):
    print(*a, file=sys.stderr, flush=True)


def sh(cmd, timeout=None, cwd=None, env=None, check=True, input=None):
    e = dict(os.environ)
    e.update({"CARGO_NET_OFFLINE": "true"})
    if env:
        e.update(env)
    p = subprocess.run(cmd, cwd=cwd, env=e, timeout=timeout, input=input,
                       stdout=subprocess.PIPE, stderr=subprocess.PIPE, text=True)
    if check and p.returncode != 0:
        raise ToolError("command failed (%d): %s\n%s\n%s" % (p.returncode, cmd, p.stdout[-4000:], p.stderr[-4000:]))
    return p


_built = False


def build_harness():
    """Rebuild the harness against /repo's current working tree (path dependency)."""
    global _built
    if _built:
        return
    os.makedirs(WORKROOT, exist_ok=True)
    lock = os.path.join(HARNESS, "Cargo.lock")
    if not os.path.exists(lock):
        shutil.copy(os.path.join(REPO, "Cargo.lock"), lock)
    t0 = time.time()
    p = sh(["cargo", "build", "--release", "--offline"], cwd=HARNESS, timeout=1800, check=False)
    if p.returncode != 0:
        raise ToolError("harness build failed:\n" + p.stderr[-6000:])
    log("[build] harness %.1fs" % (time.time() - t0))
    _built = True


_bin_built = False
BIN = os.path.join(WORK, "target-bin", "debug", "2a-emulator")


def build_binary():
    """Build the real CLI/TUI binary from the working tree with the verif hooks on."""
    global _bin_built
    if _bin_built:
        return BIN
    t0 = time.time()
    p = sh(["cargo", "build", "--offline", "-p", "emulator-2a", "--features", "verif-hooks"],
           cwd=REPO, timeout=3000, check=False,
           env={"CARGO_TARGET_DIR": os.path.join(WORKROOT, "target-bin"),
                # dev profile (overflow checks and debug assertions stay on), lightly optimised: the TUI is drawn ~10^5 times
                "CARGO_PROFILE_DEV_OPT_LEVEL": "1", "CARGO_PROFILE_DEV_DEBUG": "0"})
    if p.returncode != 0:
        raise ToolError("binary build failed:\n" + p.stderr[-6000:])
    log("[build] binary %.1fs" % (time.time() - t0))
    _bin_built = True
    return BIN


def vh(args, timeout=3600, input=None, env=None):
    build_harness()
    p = sh([VH] + args, timeout=timeout, check=False, input=input, env=env)
    if p.returncode != 0:
        raise ToolError("vh %s failed (%d): %s" % (args, p.returncode, p.stderr[-3000:]))
    return p.stdout


def vh_json(args, timeout=3600, input=None, env=None):
    out = vh(args, timeout=timeout, input=input, env=env)
    return json.loads(out.strip().splitlines()[-1])


def gen_rom():
    """MicroRom.tla from MicroprogramRam::CONTENT of the working tree (through the compiled harness)."""
    os.makedirs(GEN, exist_ok=True)
    words = json.loads(vh(["rom"]))
    assert len(words) == 512
    lines = []
    for i in range(0, 512, 8):
        lines.append(", ".join(str(w) for w in words[i:i + 8]))
    txt = "---- MODULE MicroRom ----\n\\* GENERATED from /repo (MicroprogramRam::CONTENT) -- do not edit\nRom == <<\n" + ",\n".join(lines) + "\n>>\n====\n"
    path = os.path.join(GEN, "MicroRom.tla")
    old = open(path).read() if os.path.exists(path) else None
    if old != txt:
        tmp = path + ".%d.tmp" % os.getpid()
        open(tmp, "w").write(txt)
        os.replace(tmp, path)                  # atomic: a concurrently running TLC never reads a partial module
    return words


class TlcResult:
    def __init__(self):
        self.out = ""
        self.rc = None
        self.generated = 0
        self.distinct = 0
        self.depth = 0
        self.ok = False
        self.violated = []      # names of violated invariants / properties
        self.errors = []        # other error lines
        self.prints = []        # printed values (lines)
        self.wall = 0.0
        self.coverage = {}


def tlc(module_path, cfg_path=None, workers=None, env=None, timeout=3600, simulate=None, depth=None,
        xmx="8g", xss="256m", deque=False, coverage=False, seed=None, name=None, extra=None, lib=None):
    """Run TLC; never raises on property violations (returns them), raises ToolError on tool failures."""
    name = name or os.path.splitext(os.path.basename(module_path))[0]
    meta = os.path.join(WORK, "tlc", name + "-" + str(os.getpid()))
    shutil.rmtree(meta, ignore_errors=True)
    os.makedirs(meta, exist_ok=True)
    libs = [SPEC, os.path.join(SPEC, "mc"), os.path.join(SPEC, "trace"), GEN] + (lib or [])
    # TLC / the CommunityModules leave a directory per run in java.io.tmpdir: keep it inside the run's metadir (removed afterwards)
    java = ["java", "-XX:+UseParallelGC", "-Xmx" + xmx, "-Djava.io.tmpdir=" + meta]
    if xss:
        java.append("-Xss" + xss)
    if deque:
        java.append("-Dtlc2.tool.queue.IStateQueue=StateDeque")
    java += ["-DTLA-Library=" + ":".join(libs), "-cp", JAR, "tlc2.TLC"]
    args = ["-metadir", meta, "-cleanup", "-noGenerateSpecTE"]
    if simulate:
        args += ["-simulate", simulate]
        if depth:
            args += ["-depth", str(depth)]
    args += ["-workers", str(workers or NCPU)]
    if coverage:
        args += ["-coverage", "1"]
    if seed is not None:
        args += ["-seed", str(seed)]
    if extra:
        args += extra
    if cfg_path:
        args += ["-config", cfg_path]
    args.append(module_path)
    e = dict(os.environ)
    if env:
        e.update({k: str(v) for k, v in env.items()})
    t0 = time.time()
    try:
        p = subprocess.run(["timeout", str(int(timeout))] + java + args, cwd=os.path.dirname(module_path), env=e,
                           stdout=subprocess.PIPE, stderr=subprocess.STDOUT, text=True)
    finally:
        shutil.rmtree(meta, ignore_errors=True)
    r = TlcResult()
    r.out = p.stdout
    r.rc = p.returncode
    r.wall = time.time() - t0
    for line in r.out.splitlines():
        m = re.match(r"^(\d+) states generated, (\d+) distinct states found", line)
        if m:
            r.generated, r.distinct = int(m.group(1)), int(m.group(2))
        m = re.match(r"^The depth of the complete state graph search is (\d+)", line)
        if m:
            r.depth = int(m.group(1))
        m = re.match(r"^Error: Invariant (\S+) is violated", line)
        if m:
            r.violated.append(m.group(1))
        m = re.match(r"^Error: Action property (\S+) is violated", line)
        if m:
            r.violated.append(m.group(1))
        if "Temporal properties were violated" in line:
            r.violated.append("temporal")
        if line.startswith("Error:") and "is violated" not in line:
            r.errors.append(line)
        if "Assumption" in line and "is false" in line:
            r.errors.append(line)
    if simulate:
        # simulation mode prints progress differently
        m = re.findall(r"Progress: (\d+) states checked, (\d+) traces generated", r.out)
        if m:
            r.generated = int(m[-1][0])
            r.distinct = int(m[-1][0])
        m2 = re.findall(r"The number of states generated: (\d+)", r.out)
        if m2:
            r.generated = r.distinct = int(m2[-1])
    if p.returncode == 124:
        if simulate:
            r.ok = not r.violated and not r.errors
            return r
        raise ToolError("TLC timeout on %s after %ss" % (name, timeout))
    done = "Model checking completed. No error has been found." in r.out
    r.ok = done and not r.violated and not r.errors
    if not done and not r.violated and not r.errors and not simulate:
        raise ToolError("TLC failed on %s (rc=%s):\n%s" % (name, p.returncode, r.out[-5000:]))
    if not r.violated and r.errors and "postcondition" not in " ".join(r.errors).lower():
        # semantic / parse errors are tool errors, not property violations
        bad = [x for x in r.errors if not x.startswith("Error: The behavior up to")]
        if bad and not r.violated:
            raise ToolError("TLC error on %s:\n%s" % (name, "\n".join(l for l in r.out.splitlines() if (" :> " not in l and "|->" not in l))[-3500:]))
    return r


def sany_all():
    """Parse every module (used by setup)."""
    mods = []
    for d in (SPEC, os.path.join(SPEC, "mc"), os.path.join(SPEC, "trace")):
        for f in sorted(os.listdir(d)):
            if f.endswith(".tla"):
                mods.append(os.path.join(d, f))
    libs = ":".join([SPEC, os.path.join(SPEC, "mc"), os.path.join(SPEC, "trace"), GEN])
    bad = []
    for m in mods:
        p = subprocess.run(["java", "-DTLA-Library=" + libs, "-cp", JAR, "tla2sany.SANY", m],
                           cwd=os.path.dirname(m), stdout=subprocess.PIPE, stderr=subprocess.STDOUT, text=True)
        if p.returncode != 0 or "*** Errors" in p.stdout or "Fatal errors" in p.stdout:
            bad.append((m, p.stdout[-2000:]))
    return mods, bad


# ---------------------------------------------------------------- findings / verdicts

def load_known():
    p = os.path.join(VERIF, "known_findings.json")
    if not os.path.exists(p):
        return []
    return json.load(open(p)).get("findings", [])


class Verdict:
    """Collects violations of one property and turns them into the exit protocol."""

    def __init__(self, prop, tier, seed):
        self.prop = prop
        self.tier = tier
        self.seed = seed
        self.violations = []   # (key, what, replay-dict)
        self.t0 = time.time()

    def violation(self, key, what, replay):
        self.violations.append((key, what, replay))

    def finish(self, level, coverage, assumptions):
        known = [k for k in load_known() if k.get("property") == self.prop and k.get("status", "open") == "open"]
        new = []
        seen_known = {}
        for key, what, replay in self.violations:
            hit = None
            for k in known:
                if re.fullmatch(k["key"], key):
                    hit = k
                    break
            if hit:
                seen_known.setdefault(hit["key"], (hit, 0))
                seen_known[hit["key"]] = (hit, seen_known[hit["key"]][1] + 1)
            else:
                new.append((key, what, replay))
        for key, (k, n) in seen_known.items():
            print("KNOWN-FINDING: property=%s %s (%d occurrence(s) this run)" % (self.prop, k["what"], n))
        os.makedirs(EVID, exist_ok=True)
        ev = {
            "property_id": self.prop,
            "tier": self.tier,
            "seed": int(self.seed),
            "level": level,
            "coverage": coverage,
            "assumptions": assumptions,
            "wall_s": round(time.time() - self.t0, 2),
            "violations": len(new),
        }
        ev["coverage"]["known_findings_hit"] = sorted(seen_known.keys())
        with open(os.path.join(EVID, self.prop + ".json"), "w") as f:
            json.dump(ev, f, indent=1, sort_keys=True)
        if new:
            os.makedirs(REPLAYS, exist_ok=True)
            shown = set()
            for key, what, replay in new[:25]:
                dig = hashlib.sha1((key + json.dumps(replay, sort_keys=True, default=str)).encode()).hexdigest()[:10]
                path = os.path.join(REPLAYS, "%s-%s.json" % (self.prop, dig))
                with open(path, "w") as f:
                    json.dump({"property": self.prop, "key": key, "what": what, "replay": replay}, f, indent=1, default=str)
                if key not in shown:
                    shown.add(key)
                    print("VIOLATION property=%s replay=%s" % (self.prop, path))
                    print("  detail: %s: %s" % (key, what[:400]))
            return 1
        return 0


def write_ndjson(path, rows):
    with open(path, "w") as f:
        for r in rows:
            f.write(json.dumps(r, separators=(",", ":")) + "\n")


def read_ndjson(path):
    out = []
    with open(path) as f:
        for line in f:
            line = line.strip()
            if line:
                out.append(json.loads(line))
    return out


# ---------------------------------------------------------------- scenarios, traces, replays

def run_scenario(ops, name):
    """Execute a script of public-API ops on the real machine; returns (trace_path, summary)."""
    os.makedirs(os.path.join(WORK, "traces"), exist_ok=True)
    sp = os.path.join(WORK, "traces", name + ".script.ndjson")
    tp = os.path.join(WORK, "traces", name + ".trace.ndjson")
    write_ndjson(sp, ops)
    # every second scenario (by name) runs with the Trace-level logger that formats each record: a log statement of the code under test
    # must neither panic nor change the machine (its arguments are evaluated only when the level is enabled, as under `-vvvv`)
    env = {"VH_TRACE_LOG": "1"} if (os.environ.get("VH_TRACE_LOG") == "1" or sum(name.encode()) % 2 == 1) else None
    summ = vh_json(["scenario", sp, tp], timeout=1800, env=env)
    return tp, summ


def validate_trace(trace_path, cfg="TraceMachine", timeout=1800, module=None):
    """TLC trace validation; returns dict(accepted, reached, seq, op, states)."""
    module = module or cfg
    mp = os.path.join(SPEC, "trace", module + ".tla")
    cp = os.path.join(SPEC, "trace", cfg + ".cfg")
    r = tlc(mp, cp, workers=1, env={"TRACE": trace_path}, timeout=timeout, xmx="3g", xss="512m", deque=True,
            name=cfg + "-" + os.path.basename(trace_path))
    res = {"accepted": False, "reached": None, "seq": None, "op": None, "states": r.distinct, "violated": r.violated,
           "out_tail": r.out[-1500:]}
    m = re.search(r'<<"REJECTED", (-?\d+), (-?\d+), "([^"]*)">>', r.out)
    if m:
        res.update(reached=int(m.group(1)), seq=int(m.group(2)), op=m.group(3))
    elif r.ok:
        res["accepted"] = True
    return res


def validate_traces(paths, cfg="TraceMachine", jobs=None, timeout=1800):
    from concurrent.futures import ThreadPoolExecutor
    jobs = jobs or max(1, NCPU // 2)
    with ThreadPoolExecutor(max_workers=jobs) as ex:
        return list(ex.map(lambda p: validate_trace(p, cfg=cfg, timeout=timeout), paths))


def event_at(trace_path, idx):
    """1-based event of an NDJSON trace (with its predecessor) for replay files."""
    prev = cur = None
    with open(trace_path) as f:
        for i, line in enumerate(f, 1):
            if i == idx - 1:
                prev = json.loads(line)
            if i == idx:
                cur = json.loads(line)
                break
    for e in (prev, cur):
        if e and "s" in e and "ram" in e["s"]:
            e["s"] = dict(e["s"])
            e["s"]["ram"] = "<240 bytes omitted>"
    return {"event_index": idx, "previous": prev, "event": cur}


_REPLAY_RE = re.compile(r'^<<"REPLAY", "(.*)">>$')


def tlc_replay_lines(out):
    """Behaviours printed by TLC as <<"REPLAY", ToJson(..)>> -> list of python objects."""
    res = []
    for line in out.splitlines():
        m = _REPLAY_RE.match(line)
        if m:
            s = m.group(1).replace('\\"', '"').replace("\\\\", "\\")
            res.append(json.loads(s))
    return res


def replay_cases(cases, name):
    """S->I: run TLC-enumerated behaviours on the real machine, compare expected projections."""
    os.makedirs(os.path.join(WORK, "replay"), exist_ok=True)
    p = os.path.join(WORK, "replay", name + ".ndjson")
    write_ndjson(p, cases)
    return vh_json(["replay", p], timeout=3600)
