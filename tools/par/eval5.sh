#!/bin/bash
# usage: eval3.sh ID...   evaluates /tmp/mut/out5-ID/m1,m2 in the scratch copy
cd /root/par/verif
for id in "$@"; do for k in m1 m2; do
  [ -f /tmp/mut/out5-$id/$k/patch.diff ] || continue
  s=$(date +%s); echo "--- $id $k"; tools/mutest /tmp/mut/out5-$id/$k/patch.diff $id 2>&1 | cut -c1-400; echo "   ($(( $(date +%s) - s ))s)"
done; done
echo "### done $@"
