#!/bin/bash
# all seeded mutants against the owning check, in the scratch copy (never touches /repo)
cd /root/par/verif
declare -A ALT=( [C01-r5m2]=C04 [C04-r5m2]=C12 [C10-r5m1]=C14 [C04-r4m2]=C12 [C10-r4m2]=C14 [C04-r3m2]=C12 [C10-r3m1]=C14 [C01-r3m2]=C11 [C09-r3m2]=C11 )
for d in /verif/seeded/*/; do
  n=$(basename $d); id=${n%%-*}
  if [ $# -gt 0 ]; then ok=0; for p in "$@"; do [[ $n == $p* ]] && ok=1; done; [ $ok = 1 ] || continue; fi
  out=$(tools/mutest $d/patch.diff $id 2>&1); rc=$(echo "$out" | grep -o "rc=[0-9]*" | head -1)
  echo "$n: $id $rc $(echo "$out" | grep -m1 detail | cut -c1-220)"
  if [ "$rc" != "rc=1" ] && [ -n "${ALT[$n]}" ]; then
    out=$(tools/mutest $d/patch.diff ${ALT[$n]} 2>&1); rc=$(echo "$out" | grep -o "rc=[0-9]*" | head -1)
    echo "$n: ${ALT[$n]} $rc $(echo "$out" | grep -m1 detail | cut -c1-220)"
  fi
done
echo "### ALLDONE"
