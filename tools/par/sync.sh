#!/bin/bash
rsync -a --exclude work --exclude .git --exclude replays --exclude evidence /verif/ /root/par/verif/
cd /root/par/verif && sed -i 's#"/repo"#"/root/par/repo"#' vlib.py && sed -i 's#/repo/emulator-2a-lib#/root/par/repo/emulator-2a-lib#' harness/Cargo.toml && sed -i 's#"/repo/#"/root/par/repo/#g' checks/textgen.py && sed -i 's#git -C /repo#git -C /root/par/repo#g; s#cd /verif#cd /root/par/verif#' tools/mutest
mkdir -p evidence replays
