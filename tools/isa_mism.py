import re,collections,sys
c=collections.Counter(); ex={}
for line in open(sys.argv[1]):
    if 'MISMATCH' not in line: continue
    m=re.search(r'<<(\d+), (\d+), (\d+), (\d+), (\d+), (\d+), \\"(\w+)\\", \\"(\w+)\\", \\"(\w+)\\", (\{.*?\}),',line)
    if not m: print(line[:200]); continue
    pc,b0,b1,b2,k,cyc,st,est,tag,diff=m.groups()
    key=(int(b0), int(b1) if int(b0)>=240 else -1, int(k)-int(cyc), st, est, tag, diff.replace('\\"',''))
    c[key]+=1; ex[key]=line.strip()[:600]
for key,n in sorted(c.items()): print(n, "op=0x%02X"%key[0], ("b1=0x%02X"%key[1]) if key[1]>=0 else "", "k-cyc=",key[2], key[3:])
if len(sys.argv)>2:
    for key in sorted(c)[:int(sys.argv[2])]: print(ex[key])
