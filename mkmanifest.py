#!/usr/bin/env python3
"""Regenerates MANIFEST.json from the table below (kept in one place so it always validates)."""
import json
import os

HERE = os.path.dirname(os.path.abspath(__file__))
ALL = ["C%02d" % i for i in range(1, 18)]

CHECKS = {
    "C08": dict(
        category="model_checking",
        text="Exhaustive: TLC checks the algebraic facts named by the property on Alu.tla over all 2 097 152 points and "
             "serialises the reference table; the harness compares AluOutput::from_input with it on every point. Complete for "
             "this finite function, so nothing stronger is needed.",
        design_ref="DESIGN.md section 3 C08",
        note="Trusted: TLC + CommunityModules Bitwise, the reading of the AluSelect doc comments encoded in Alu.tla, the harness's packing of the four AluOutput getters.",
        technique="TLA+ reference table (TLC, exhaustive) replayed into the real ALU on the whole domain",
    ),
}


def main():
    checks = []
    for pid in ALL:
        if pid not in CHECKS:
            continue
        c = CHECKS[pid]
        checks.append({
            "property_id": pid,
            "quick_cmd": "./check %s --tier quick" % pid,
            "thorough_cmd": "./check %s --tier thorough" % pid,
            "evidence_file": "/verif/evidence/%s.json" % pid,
            "replay_cmd_template": "./check %s --replay {path}" % pid,
            "engine": "tla-conformance",
            "level_claimed": {"category": c["category"], "text": c["text"], "design_ref": c["design_ref"]},
            "level_note": c["note"],
            "technique": c["technique"],
        })
    na = [{"property_id": p, "reason": "check not built yet at this commit (work in progress; see DESIGN.md section 6)"}
          for p in ALL if p not in CHECKS]
    man = {
        "version": 1,
        "setup_cmd": "./setup",
        "hooks": {
            "guard": "cargo feature verif-hooks (crates emulator-2a-lib and emulator-2a)",
            "enable": "harness: path dependency on /repo/emulator-2a-lib with features=[\"verif-hooks\"]; binary: cargo build -p emulator-2a --features verif-hooks",
            "baseline_off_cmd": "cd /repo && cargo test --workspace --no-fail-fast --offline",
            "source_commits": json.load(open(os.path.join(HERE, "hook_commits.json"))),
            "add_only": True,
        },
        "engines": [{
            "name": "tla-conformance",
            "path": "/verif/check",
            "serves_properties": sorted(CHECKS.keys()),
            "kind_free_text": "explicit TLA+ specification (spec/*.tla) checked with TLC; bound to the code by a Rust harness "
                              "(harness/) that replays TLC-generated tables/behaviours into the real code and records traces "
                              "of the real code that TLC validates against the specification",
        }],
        "checks": checks,
        "not_applicable": na,
        "notes": "All checks rebuild the harness from /repo's working tree; the control store is re-extracted on every run. "
                 "known_findings.json lists open genuine defects (none suppress anything else) and fixed ones.",
    }
    with open(os.path.join(HERE, "MANIFEST.json"), "w") as f:
        json.dump(man, f, indent=1)


if __name__ == "__main__":
    main()
