#!/usr/bin/env python3
"""Regenerates MANIFEST.json from the table below (kept in one place so it always validates)."""
import json
import os

HERE = os.path.dirname(os.path.abspath(__file__))
ALL = ["C%02d" % i for i in range(1, 18)]

CHECKS = {
    "C02": dict(
        category="model_checking",
        text="Asm.tla is the reference encoder (instruction table, layout, label resolution). Every instruction form x operand shape x register "
             "(1 100+ shapes) is placed after preceding directives with backward / forward / mixed-case label references and .EQU constants, plus random "
             "multi-line programs; each is parsed and compiled by the real code and TLC compares every line's bytes, the image and the settings with "
             "Asm!Assemble(Mrasm!ParseText(text).ast).",
        design_ref="DESIGN.md section 3 C02",
        note="Trusted: TLC; Asm.tla as the transcription of the instruction table; harness AST/bytecode projection. Quick: one context per shape and variant "
             "(rotating with the seed); thorough: all 13 contexts. Backward .ORG / oversize images have no reference (C06).",
        technique="TLA+ reference assembler evaluated by TLC on every enumerated program and compared with the real translator's output",
    ),
    "C03": dict(
        category="model_checking",
        text="Mrasm.tla states the language at character level with a three-valued verdict and the AST. Grammar-derived programs (every form, radix, "
             "boundary value, spacing/case variant), hand-picked token mutations, random character mutations and arbitrary Unicode strings are parsed by "
             "the real parser under catch_unwind and judged by TLC: verdict, error class and the AST line by line.",
        design_ref="DESIGN.md section 3 C03, Appendix C",
        note="Trusted: TLC; Mrasm.tla's reading of the documented language incl. its explicit list of unspecified zones (only no-crash there); the "
             "exploration engine for 'all strings' is the generator.",
        technique="character-level TLA+ language definition evaluated by TLC on every generated text and compared with the real parser (verdict + AST)",
    ),
    "C06": dict(
        category="model_checking",
        text="Every text the real parser accepts (risk classes of the property, random and mutated programs, every instruction shape) is compiled, listed "
             "and loaded under catch_unwind; TLC classifies each crash with Asm.tla (backward .ORG / oversize image / program with a reference encoding). "
             "Crashes of programs with a reference encoding are violations; the two classes without one are known findings. `2a-emulator verify` then `run` "
             "on a sample.",
        design_ref="DESIGN.md section 3 C06, section 5",
        note="Translator::compile has no error channel, so backward .ORG and oversize images are recorded as known findings (keyed by class).",
        technique="generator-driven no-crash check with TLA+ (Asm.tla) classification of every crash",
    ),
    "C12": dict(
        category="model_checking",
        text="Runner.tla composed with Machine/Micro.tla is run by TLC over programs x budgets (incl. 0) x interrupt/reset cycle sets (cycle 0, N-1, N, "
             "beyond the end) x inputs, with CyclesOk and the verification rule over 64 expectation sets; every configuration is executed by the real "
             "RunnerConfig::run + verify (full machine projection, cycle count, all 64 outcomes) and a sample by the real command-line tool (printed "
             "State/FE/FF/Cycles, exit status, three radices, unreadable/unparsable files).",
        design_ref="DESIGN.md section 3 C12",
        note="Trusted: TLC; programs are given to the tool as .DB lines; which mismatch is reported first is informational.",
        technique="TLC enumeration of run configurations on the TLA+ run loop + replay through the real library and CLI",
    ),
    "C16": dict(
        category="model_checking",
        text="Accepted programs are rendered by the real Display and re-parsed by the real parser; TLC requires the rendering to be accepted by Mrasm.tla "
             "with the identical AST and header comment, and the real re-parse to return an equal program.",
        design_ref="DESIGN.md section 3 C16",
        note="Trusted: TLC; Mrasm.tla; harness projection; generator as exploration engine.",
        technique="TLC judges the real rendering with the TLA+ language definition (round trip on the spec side and on the code side)",
    ),
    "C17": dict(
        category="model_checking",
        text="Tui.tla models the line editor, completion, history, notification, command language and session keys. TLC explores all key sequences up to "
             "length 3 (thorough 4) over 21 keys with EditorOk; each is typed into the real session (real handle_event, real Interface drawn after every key) "
             "and the editor compared; command lines (all commands, radices, case/spacing, values around 255/256, trailing garbage) are submitted and "
             "validated by TraceTui incl. the machine effect - `load PATH` of readable program files included (TraceTui!LoadedFrom composes Mrasm.tla, Asm.tla and "
             "Machine!LoadF); a session of more than 1000 submitted lines; random key streams at 8 sizes, long lines with the cursor at every position, and a sweep over "
             "all terminal sizes for 4 states and 7 sessions with a loaded program file.",
        design_ref="DESIGN.md section 3 C17, Appendix D",
        note="Trusted: TLC; Tui.tla's reading of the documented commands; TestBackend; debug-profile binary (overflow checks on). Unspecified: float spellings "
             "beyond digits[.digits<=3], 0X/0B, which candidate BackTab selects, file-name completion, load of files the check did not write.",
        technique="TLC BFS over key sequences replayed into the real TUI + TLA+ trace validation of scripted sessions",
    ),
    "C04": dict(
        category="model_checking",
        text="TLC runs four main x interrupt-routine programs (incl. a routine that re-enables interrupts and is entered again while running) on Micro.tla (control store from the tree) with the key pressed before EVERY clock cycle "
             "(and every pair within a window): the routine is entered only from an int: word after a sampling point, every effective press is consumed "
             "exactly once, presses made while enabled are entered unless the program itself disables interrupts first, the routine's counter equals the "
             "entries, and the final registers/flags/SP/outputs/live memory equal the uninterrupted run. Every schedule is replayed on the real machine and "
             "the full final state (private fields included) compared; a sample is validated edge by edge.",
        design_ref="DESIGN.md section 3 C04",
        note="Trusted: TLC; sampling semantics (a press during DI or the entry sequence is dropped/deferred); masking of dead stack slots and the counter cell; four programs.",
        technique="TLC BFS over all trigger cycles with history variables + replay of every TLC schedule on the real machine + trace validation",
    ),
    "C05": dict(
        category="model_checking",
        text="TLC: LDSP v for all 256 v x 5 stack sizes x 6 follow-ups and JMP t for all 256 targets x 11 limits on Micro.tla; at every state SupInv, "
             "StepProps (regular stop iff STOP fetched; error stop iff a commit breaks a rule or 0x00 fetched, at that very edge), Absorbing and closure of "
             "halted states under further stimuli. Every halting run is replayed on the real machine (Running one edge earlier, full state at the halting "
             "edge); per-edge traces with post-halt stimuli and continue are validated with SupInv.",
        design_ref="DESIGN.md section 3 C05",
        note="Trusted: TLC; the corner the property leaves open (STOP fetched by the edge that also commits an illegal PC/SP) is exempt via the history variable taint.",
        technique="TLC BFS with state and step invariants + replay of halting runs + TLA+ trace validation per clock edge",
    ),
    "C07": dict(
        category="model_checking",
        text="TLC: all histories up to depth 4 (thorough 5) over 20 actions; after every prefix the field-by-field statements for cpu reset / master "
             "reset / load and a lock-step run against a fresh machine. Real machine: random histories where, after the prefixes, each reset/load is applied "
             "to a clone and ALL fields (private ones via hooks, full RAM) are compared with the specification; a follow-up program is run in lock step with "
             "a newly created machine.",
        design_ref="DESIGN.md section 3 C07",
        note="Trusted: TLC; hooks; NOSET limits inherited; fresh-machine comparison modulo board inputs, MISR, UART bytes and step mode.",
        technique="TLC BFS over bounded histories with per-prefix reset properties + trace validation of real histories with reset probes on clones",
    ),
    "C11": dict(
        category="model_checking",
        text="TLC walks the code-shaped two-phase loop of trigger_key_clock next to the declarative definition from every state of the edge-by-edge runs "
             "of the program suite (key interrupt at any point) and from a boundary with every byte at PC. On the real machine every offset j of the suite "
             "programs (and random images) is clocked j single edges and then stepped in assembly mode; each step's edge count is measured against a "
             "single-stepped clone, a watchdog records non-return, and TraceMachine accepts a step only if it ends exactly at the declarative boundary.",
        design_ref="DESIGN.md section 3 C11",
        note="Trusted: TLC; an edge that changes nothing is unobservable (stuck sequencer on an undefined opcode).",
        technique="TLC BFS of the step loop vs declarative definition + TLA+ trace validation of assembly steps from every run offset",
    ),
    "C13": dict(
        category="model_checking",
        text="Specification: every action of Machine.tla is total and preserves TypeOK under hostile values (TLC -simulate). Code: a bulk random driver "
             "(16 processes; quick 3x10^7, thorough 10^9 calls) executes loads of uniform/opcode-biased images with all stack sizes and limits, edges, key "
             "interrupts, continue, resets, setters with raw f32 bit patterns and direct bus calls under catch_unwind with overflow checks on, reading all "
             "getters and stepping once more after every call; a sample of interleavings is validated event by event.",
        design_ref="DESIGN.md section 3 C13",
        note="TLC cannot make Rust panic: the exploration engine for panics is the random driver; the spec supplies the enabledness oracle and validates the sample.",
        technique="TLC simulation of TypeOK/enabledness + randomized driver under catch_unwind + trace validation of a sample",
    ),
    "C01": dict(
        category="model_checking",
        text="Refinement Micro(control store of the working tree) => Isa.tla checked by TLC at instruction boundaries: equality of the whole abstract "
             "state for every one-byte opcode, every two-byte form, address classes across the RAM/I-O boundary and supervision bands (thorough: unary "
             "group all values x flags, register-register group incl. MUL/DIV all 65 536 pairs x carry). The micro model is bound to the code by "
             "whole-domain equality of decode, next-address and ALU functions and by validating random instruction sequences of the real machine per "
             "instruction (TraceIsa, all of RAM and registers compared) and per clock edge (TraceMachine, every private field).",
        design_ref="DESIGN.md section 3 C01, Appendix A",
        note="Trusted: TLC; Isa.tla as the reading of the instruction-set definition; verif hooks. Unspecified (only no-crash): MUL/DIV with PC as destination, "
             "second opcode bytes 0x02-0x0F. Register-pair coverage beyond the canonical pair uses boundary value sets.",
        technique="TLC refinement check Micro=>Isa from generated boundary states + whole-domain function conformance + TLA+ trace validation (ISA level and edge level)",
    ),
    "C15": dict(
        category="model_checking",
        text="The same refinement BFS with the invariant CostOk: clock edges between boundaries = Isa!cyc (1 + words of the form + one wait per access "
             "to an address <= 0xEF), over all opcode shapes and address classes (thorough: all MUL/DIV operand pairs); every instruction of random "
             "sequences executed by the real machine is validated against the same cost function, with the state re-synchronised from the log so that "
             "only the cost is judged.",
        design_ref="DESIGN.md section 3 C15, Appendix A",
        note="Trusted: TLC; the per-form word counts in Isa.tla (read off the control store listing; a change of the control store that alters a path length is reported).",
        technique="TLC invariant on the Micro=>Isa refinement BFS (edge counter history variable) + trace validation of per-instruction edge counts",
    ),
    "C09": dict(
        category="model_checking",
        text="TLC explores the complete abstract control graph (maddr, IR) of the control store extracted from the working tree with every "
             "data-dependent input nondeterministic (Programmed, InRoutine, Completes, UndefinedNeverCompletes); the graph is bound to the code by "
             "comparing MAC bits and successor sets of the real next-address function for all 512 x 256 x 2^9 forced control states; MUL/DIV loop "
             "termination is run on the real machine for all 65 536 pairs x carry. Exhaustive, which is what this finite property needs.",
        design_ref="DESIGN.md section 3 C09, 2.3",
        note="Trusted: TLC; verif_restore/verif_snapshot hooks; the defined-opcode sets written in MC_Ctl.tla; Bound=40 steps for non-loop routines.",
        technique="TLC exhaustive BFS of the control-flow graph of the tree's microprogram + whole-domain conformance of the real next-address function",
    ),
    "C10": dict(
        category="model_checking",
        text="TLC checks the decoder-shaped Bus.tla against a map-based reference for all 3 x 256 x 256 single operations and all 65 536 ordered "
             "write-address pairs; every enumerated case is forced onto the real Bus and the signature of all cells C10 names is compared; random "
             "read/write/set-input sequences of the real Bus are validated event by event against the specification.",
        design_ref="DESIGN.md section 3 C10",
        note="Trusted: TLC; the harness's signature/projection code; five pre-states (empty, busy, board-configured, board interrupt raised with IE clear, comparators stale after a master reset) as the state quantifier; the signature includes the board status registers after every write.",
        technique="TLC exhaustive enumeration over (pre-state, address, byte) and address pairs, replayed into the real Bus; TLA+ trace validation of random op sequences",
    ),
    "C14": dict(
        category="model_checking",
        text="TLC BFS (depth 3, alphabet on both sides of every comparison, all 8 interrupt sources x 2 polarities, non-finite voltage classes) checks "
             "the state and action statements of the property on Board.tla; every reached board state is restored on the real board and every action "
             "replayed with the full board signature compared; the clamp rule is swept over f32 bit patterns (all 2^32 in the thorough tier); random "
             "interleavings are trace-validated with the state invariant evaluated at every step.",
        design_ref="DESIGN.md section 3 C14",
        note="Trusted: TLC; millivolt-grid abstraction of f32 (exactness of the grid comparison and of the fan rpm formula measured over their whole "
             "domain); Board::verif_restore hook; fan period tolerance of one count; below the grid the comparator rule is checked Rust-side against the board's own reported input / DAC voltage (+-3 ulp around every DAC voltage).",
        technique="TLC BFS over board states with per-action properties, every transition replayed on the real board; trace validation; Rust-side f32 class sweep",
    ),
    "C08": dict(
        category="model_checking",
        text="Exhaustive: TLC checks the algebraic facts named by the property on Alu.tla over all 2 097 152 points and "
             "serialises the reference table; the harness compares AluOutput::from_input with it on every point. Complete for "
             "this finite function, so nothing stronger is needed.",
        design_ref="DESIGN.md section 3 C08",
        note="Trusted: TLC + CommunityModules Bitwise, the reading of the AluSelect doc comments encoded in Alu.tla, the harness's packing of the four AluOutput getters; every point is evaluated in six call orders (a result that depends on earlier calls is a violation).",
        technique="TLA+ reference table (TLC, exhaustive) replayed into the real ALU on the whole domain",
    ),
}


def main():
    checks = []
    for pid in ALL:
        if pid not in CHECKS:
            continue
        c = CHECKS[pid]
        checks.append({
            "property_id": pid,
            "quick_cmd": "./check %s --tier quick" % pid,
            "thorough_cmd": "./check %s --tier thorough" % pid,
            "evidence_file": "/verif/evidence/%s.json" % pid,
            "replay_cmd_template": "./check %s --replay {path}" % pid,
            "engine": "tla-conformance",
            "level_claimed": {"category": c["category"], "text": c["text"], "design_ref": c["design_ref"]},
            "level_note": c["note"],
            "technique": c["technique"],
        })
    na = [{"property_id": p, "reason": "check not built yet at this commit (work in progress; see DESIGN.md section 6)"}
          for p in ALL if p not in CHECKS]
    man = {
        "version": 1,
        "setup_cmd": "./setup",
        "hooks": {
            "guard": "cargo feature verif-hooks (crates emulator-2a-lib and emulator-2a)",
            "enable": "harness: path dependency on /repo/emulator-2a-lib with features=[\"verif-hooks\"]; binary: cargo build -p emulator-2a --features verif-hooks",
            "baseline_off_cmd": "cd /repo && cargo test --workspace --no-fail-fast --offline",
            "source_commits": json.load(open(os.path.join(HERE, "hook_commits.json"))),
            "add_only": True,
        },
        "engines": [{
            "name": "tla-conformance",
            "path": "/verif/check",
            "serves_properties": sorted(CHECKS.keys()),
            "kind_free_text": "explicit TLA+ specification (spec/*.tla) checked with TLC; bound to the code by a Rust harness "
                              "(harness/) that replays TLC-generated tables/behaviours into the real code and records traces "
                              "of the real code that TLC validates against the specification",
        }],
        "checks": checks,
        "not_applicable": na,
        "notes": "All checks rebuild the harness from /repo's working tree; the control store is re-extracted on every run. "
                 "known_findings.json lists open genuine defects (none suppress anything else) and fixed ones.",
    }
    with open(os.path.join(HERE, "MANIFEST.json"), "w") as f:
        json.dump(man, f, indent=1)


if __name__ == "__main__":
    main()
