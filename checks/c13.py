"""C13 - no program and no external stimulus can crash the emulator core."""
import json
import os
import random
from concurrent.futures import ThreadPoolExecutor

import vlib
from checks import isa_common as ic

NAN_V, NEG_INF_V, POS_INF_V = -1000000, -2000000, 2000000


def hostile_trace(rng, n):
    ops = [{"op": "new"}]
    volts = [0, 1, 4999, 5000, 5001, -1, 70000, NAN_V, NEG_INF_V, POS_INF_V]
    for _ in range(n):
        r = rng.random()
        if r < 0.03:
            img = ic.random_image(rng, biased=rng.random() < 0.5, n=rng.choice([5, 60, 237]))
            ops.append({"op": "load", "image": img, "ss": rng.choice([0, 16, 32, 48, 64]), "ps": rng.choice([-1, 0, 3, len(img), 255])})
        elif r < 0.04:
            ops.append(rng.choice([ic.new_checked(rng, rng.choice([None, ic.random_image(rng, True, 60)])),
                                   {"op": "load_raw", "image": ic.random_image(rng, rng.random() < 0.5, rng.choice([0, 9, 240]))[:240]}]))
        elif r < 0.05:
            ops.append({"op": "set_limits", "ss": rng.choice([0, 16, 32, 48, 64]), "ps": rng.choice([-2, -1, 0, 5, 255, rng.randrange(256)])})
        elif r < 0.07:
            ops += [{"op": "mode", "v": "Assembly"}, {"op": "key_clock", "n": rng.randrange(1, 12)}, {"op": "mode", "v": "Real"}]
        elif r < 0.55:
            ops.append({"op": "edge", "n": rng.randrange(1, 25)})
        elif r < 0.6:
            ops.append({"op": "key_int"})
        elif r < 0.63:
            ops.append({"op": "continue"})
        elif r < 0.65:
            ops.append({"op": rng.choice(["cpu_reset", "master_reset"])})
        elif r < 0.7:
            ops.append({"op": "set_input", "k": rng.randrange(4), "v": rng.randrange(256)})
        elif r < 0.8:
            ops.append({"op": rng.choice(["set_temp", "set_ai1", "set_ai2"]), "x": rng.choice(volts + [rng.randrange(0, 5001)])})
        elif r < 0.86:
            ops.append(rng.choice([{"op": "set_j1", "v": rng.random() < 0.5}, {"op": "set_j2", "v": rng.random() < 0.5},
                                   {"op": "set_uio", "k": rng.randrange(1, 4), "v": rng.random() < 0.5}, {"op": "set_di1", "v": rng.randrange(256)}]))
        elif r < 0.94:
            ops.append({"op": "bus_write", "a": rng.choice([rng.randrange(0xF0, 0x100), rng.randrange(256)]), "v": rng.randrange(256)})
        elif r < 0.98:
            ops.append({"op": "bus_read", "a": rng.choice([rng.randrange(0xF0, 0x100), rng.randrange(256)])})
        else:
            ops += ic.board_irq_ops(rng)
    ops.append({"op": "checkpoint"})
    return ops


def run(tier, seed, replay):
    v = vlib.Verdict("C13", tier, seed)
    vlib.build_harness()
    vlib.gen_rom()
    num, depth = (150, 200) if tier == "quick" else (3000, 300)
    r = vlib.tlc(os.path.join(vlib.SPEC, "mc", "MC_TypeOK.tla"), os.path.join(vlib.SPEC, "mc", "MC_TypeOK.cfg"),
                 simulate="num=%d" % num, depth=depth, workers=8, timeout=3000, seed=seed)
    for inv in r.violated:
        v.violation("total:spec:" + inv, "an action of Machine.tla leaves TypeOK (hostile values)", {"tlc": r.out[r.out.find("Error:"):][:5000]})
    # bulk driver on the real code
    procs = vlib.NCPU
    calls = 2_000_000 if tier == "quick" else 60_000_000
    def one(i):
        # every second process runs with a Trace-level logger that formats each record (the arguments of the code's log statements are evaluated)
        return vlib.vh_json(["fuzz", str(seed * 1000 + i), str(calls)], timeout=7200, env={"VH_TRACE_LOG": "1" if i % 2 else "0"})
    with ThreadPoolExecutor(max_workers=procs) as ex:
        outs = list(ex.map(one, range(procs)))
    total = sum(o["calls"] for o in outs)
    seen = set()
    for o in outs:
        for p in o["panics"]:
            site = p["what"].split(":")[0][:80]
            key = "panic:" + site
            if key in seen:
                continue
            seen.add(key)
            v.violation(key, p["what"], p)
    # a sample of such interleavings is fully validated against the specification
    rng = random.Random(seed)
    nt, n = (4, 400) if tier == "quick" else (32, 900)
    traces = [vlib.run_scenario(hostile_trace(rng, n), "c13-%d" % i)[0] for i in range(nt)]
    # one LONG history on a single machine (state that accumulates over thousands of calls and many loads)
    traces.append(vlib.run_scenario(hostile_trace(rng, 2500 if tier == "quick" else 9000), "c13-longhist")[0])
    # the longest instructions with a key interrupt pending, stepped in assembly mode (instruction + interrupt entry in one call)
    from checks import c11
    traces.append(vlib.run_scenario(c11.long_instruction_trace(), "c13-long")[0])
    results = vlib.validate_traces(traces, cfg="TraceMachine")
    nev = ic.report_trace_results(v, traces, results, "totaltrace", "hostile-stimulus")
    cov = {
        "states": r.distinct, "transitions": r.generated, "traces_validated_against_impl": len(traces),
        "samples": [{"fuzz_process": 0, "summary": {k: outs[0][k] for k in ("calls", "loads", "calls_in_halted_state")}}, {"trace": traces[0]}],
        "driver_calls": total, "driver_image_loads": sum(o["loads"] for o in outs), "trace_events_validated": nev, "exhaustive": False,
        "evaluations": total, "distinct_nontrivial": sum(o["loads"] for o in outs),
        "rule": "spec: TypeOK under TLC -simulate with hostile values (every action always enabled); code: %d processes x %d random calls "
                "(whole assembly-mode steps under a watchdog, loads of uniform / opcode-biased images with all stack sizes and limits, edges, key interrupt, continue, resets, setters with raw f32 bit "
                "patterns, direct bus reads/writes) each under catch_unwind with overflow checks and debug assertions on, getters + one more edge after "
                "every call; distinct_nontrivial counts distinct loaded images; a sample of interleavings validated event by event" % (procs, calls),
    }
    return v.finish("model_checking", cov, ["TLC supplies the enabledness oracle; the exploration engine for panics is the random driver (stated in DESIGN.md)",
                                            "Stacksize::NotSet is never installed in a RawMachine by the public Machine API (raw_mut().set_stacksize(NotSet) is out of scope)"])
