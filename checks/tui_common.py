"""Driving the real TUI through the verif hook and converting its log for TraceTui.tla."""
import json
import os
import struct
import subprocess

import vlib

OFF_GRID = -7777777


def mv_of_bits(bits):
    v = struct.unpack("<f", struct.pack("<I", bits))[0]
    if v != v or v in (float("inf"), float("-inf")):
        return OFF_GRID
    k = round(v * 1000)
    back = struct.unpack("<f", struct.pack("<f", k / 1000.0))[0]
    return k if back == v else OFF_GRID


def key_line(key):
    if isinstance(key, tuple):
        return "%s %d" % key
    return key


def run_script(lines, name, timeout=3000):
    """lines: script lines for the hook; returns the parsed JSON lines it printed"""
    binary = vlib.build_binary()
    d = os.path.join(vlib.WORK, "tui")
    os.makedirs(d, exist_ok=True)
    sp = os.path.join(d, name + ".script")
    open(sp, "w").write("\n".join(lines) + "\n")
    p = subprocess.run([binary], env=dict(os.environ, EMU2A_VERIF_SCRIPT=sp, NO_COLOR="1"), stdout=subprocess.PIPE, stderr=subprocess.PIPE,
                       text=True, timeout=timeout, cwd=d)
    out = []
    for line in p.stdout.splitlines():
        if line.startswith("{"):
            out.append(json.loads(line))
    if p.returncode != 0 and not out:
        raise vlib.ToolError("hooked binary failed: rc=%s %s" % (p.returncode, p.stderr[-1500:]))
    return out, p


def to_events(recs, hist_tail=None, files=None):
    """files: {path: text} of readable, valid program files; the `enter` that submits `load <path>` carries the text as `ftext`"""
    evs = []
    prev_text = []
    for i, r in enumerate(recs, 1):
        typed, prev_text = prev_text, (r["ed"]["text"] if r.get("ed") else [])
        op = r["op"].split()
        kind = op[0]
        if kind in ("size", "draw", "sweep"):
            continue
        if r["key_panic"] is not None or r["draw_panic"] is not None:
            evs.append({"seq": i, "op": "panic", "what": r["key_panic"] or r["draw_panic"], "line": r["op"]})
            continue
        ev = {"seq": i, "op": kind}
        if kind in ("char", "ctrl"):
            ev["c"] = int(op[1])
        ed = r["ed"]
        ev["ed"] = {"text": ed["text"], "cursor": ed["cursor"], "hist": ed["hist"], "hidx": ed["hidx"],
                    "comps": ed["comps"] if ed["comps"] is not None else [], "cidx": ed["cidx"]}
        n = r["notif"]
        ev["notif"] = "none" if n is None else ("invalid" if n.startswith("Invalid input") else "other")
        ev["quit"] = r["quit"]
        m = r["m"]
        ev["m"] = {"regs": m["regs"], "st": m["st"], "maddr": m["maddr"], "ir": m["ir"], "inr": m["inr"], "outr": m["outr"], "asm": m["asm"],
                   "autorun": m["autorun"], "part": m["part"], "di1": m["di1"], "temp": mv_of_bits(m["temp_bits"]), "ai1": mv_of_bits(m["ai1_bits"]),
                   "ai2": mv_of_bits(m["ai2_bits"]), "dasr": m["dasr"], "ramsum": m["ramsum"], "misr": m["misr"]}
        if files and kind == "enter":
            line = "".join(chr(c) for c in typed).lstrip(" \t")
            path = line[4:].lstrip(" \t")              # the path is the rest of the line, trailing blanks included
            if line[:4].lower() == "load" and line[4:5] in (" ", "\t") and path in files:
                ev["ftext"] = [ord(c) for c in files[path]]
        if hist_tail is not None:
            # long sessions: the history is logged as its length and its last entries (the specification compares exactly these)
            h = ev["ed"].pop("hist")
            ev["ed"]["hlen"] = len(h)
            ev["ed"]["htail"] = h[-hist_tail:]
        evs.append(ev)
    return evs


def type_line(text):
    return [("char", ord(c)) for c in text] + ["enter"]
