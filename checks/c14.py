"""C14 - MR2DA2 board status always reflects its inputs, DACs and configuration."""
import json
import os
import random

import vlib

NAN_V, NEG_INF_V, POS_INF_V = -1000000, -2000000, 2000000


def random_board_ops(rng, n):
    ops = [{"op": "new"}]
    volts = [0, 9, 10, 11, 999, 1000, 1001, 2549, 2550, 2551, 4999, 5000, 5001, -1, -5000, 70000, NAN_V, NEG_INF_V, POS_INF_V]
    for _ in range(n):
        k = rng.random()
        if k < 0.25:
            ops.append({"op": "bus_write", "a": rng.choice([0xF0, 0xF1]), "v": rng.choice([rng.randrange(256), 0, 1, 100, 254, 255])})
        elif k < 0.45:
            hi = rng.choice([0, 0, 64, 128, 192, 192])
            ops.append({"op": "bus_write", "a": 0xF2, "v": hi + rng.randrange(64)})
        elif k < 0.5:
            ops.append({"op": "bus_write", "a": 0xF3, "v": rng.randrange(256)})
        elif k < 0.6:
            ops.append({"op": "bus_read", "a": rng.choice([0xF0, 0xF1, 0xF2, 0xF3])})
        elif k < 0.8:
            x = rng.choice([rng.choice(volts), rng.randrange(0, 5001), rng.randrange(0, 2600)])
            ops.append({"op": rng.choice(["set_ai1", "set_ai2", "set_temp"]), "x": x})
        elif k < 0.88:
            ops.append({"op": rng.choice(["set_j1", "set_j2"]), "v": rng.random() < 0.5})
        elif k < 0.97:
            ops.append({"op": "set_uio", "k": rng.randrange(1, 4), "v": rng.random() < 0.5})
        else:
            ops.append({"op": "set_di1", "v": rng.randrange(256)})
    return ops


def run(tier, seed, replay):
    v = vlib.Verdict("C14", tier, seed)
    vlib.build_harness()
    vlib.gen_rom()
    cfg = "MC_Board_quick.cfg" if tier == "quick" else "MC_Board_thorough.cfg"
    r = vlib.tlc(os.path.join(vlib.SPEC, "mc", "MC_Board.tla"), os.path.join(vlib.SPEC, "mc", cfg), timeout=3000, xmx="16g")
    if r.violated:
        raise vlib.ToolError("Board.tla violates the C14 statements (spec bug): %s\n%s" % (r.violated, r.out[-3000:]))
    cases, seen = [], set()
    for c in vlib.tlc_replay_lines(r.out):      # the same board state can occur at several depths
        k = json.dumps(c.get("pre"))
        if c.get("kind") == "state" and k in seen:
            continue
        seen.add(k)
        cases.append(c)
    p = os.path.join(vlib.WORK, "board_cases.ndjson")
    vlib.write_ndjson(p, cases)
    res = vlib.vh_json(["board-check", p], timeout=3000)
    for name, n in res["per_op"].items():
        ex = [f for f in res["first"] if (f["op"] if isinstance(f["op"], str) else
              f["op"]["op"] + ("@%d" % f["op"]["a"] if "a" in f["op"] else "")) == name or name == "(state)"][:2]
        v.violation("board:" + name, "%d transitions of the real board differ from Board.tla for %s (sig=%s), e.g. %s"
                    % (n, name, res["sig"], json.dumps(ex)[:900]), {"op": name, "examples": ex, "sig": res["sig"]})
    if res["panics"]:
        v.violation("board:panic", "%d panics while replaying board transitions" % res["panics"], res["first"][:3])
    # every DAC byte with the input just below / at / just above the DAC voltage (both comparators, temperature, both orders)
    sw = vlib.tlc(os.path.join(vlib.SPEC, "mc", "MC_BoardSweep.tla"), os.path.join(vlib.SPEC, "mc", "MC_BoardSweep.cfg"), timeout=1800)
    if sw.violated:
        raise vlib.ToolError("Board.tla violates the comparator law in MC_BoardSweep (spec bug): %s" % sw.out[-2000:])
    swcases = [{"pre": [{"op": "new"}], "h": c["h"], "s": c["s"]} for c in vlib.tlc_replay_lines(sw.out)]
    swres = vlib.replay_cases(swcases, "c14-sweep")
    if swres["mismatches"]:
        f = swres["first"][0]
        v.violation("board:dac-sweep", "%d of %d (DAC byte, input at / around the DAC voltage) cases differ from Board.tla, e.g. ops %s: %s"
                    % (swres["mismatches"], swres["cases"], json.dumps(f["case"]["h"]), f["diff"][:3]), f)
    # comparator rule below the millivolt grid of Board.tla: f32 neighbours (+-3 ulp) of every DAC voltage, decimal spellings of k/100,
    # non-numbers; three orders of DAC write / input change; through the Machine-level setters and the bus
    cmp = vlib.vh_json(["comp-sweep"], timeout=3000)
    if cmp["bad"]:
        v.violation("board:comparator-f32", "comparator bit != (reported input > reported DAC voltage) in %d of %d cases, e.g. %s"
                    % (cmp["bad"], cmp["cases"], json.dumps(cmp["first"][:2])), cmp["first"])
    # clamp rule over f32 bit patterns (TLA+ has no floats: class table checked on the Rust side)
    step = 4099 if tier == "quick" else 1
    cs = vlib.vh_json(["clamp-sweep", str(step)], timeout=3000)
    if cs["bad"]:
        v.violation("board:clamp", "clamp rule violated for %d f32 bit patterns, e.g. %s" % (cs["bad"], json.dumps(cs["first"][:3])), cs["first"])
    # I->S: random interleavings validated by Board.tla, StateInv at every step
    rng = random.Random(seed)
    ntr, nops = (4, 2500) if tier == "quick" else (32, 6000)
    traces = [vlib.run_scenario(random_board_ops(rng, nops), "c14-%d" % i)[0] for i in range(ntr)]
    results = vlib.validate_traces(traces, cfg="TraceBoard")
    nev = 0
    for tp, tr in zip(traces, results):
        nev += tr["states"]
        if tr["violated"]:
            v.violation("board:trace-inv", "C14 state invariant violated on a validated trace: %s" % tr["violated"], {"trace": tp, "tlc": tr["out_tail"]})
        elif not tr["accepted"]:
            ev = vlib.event_at(tp, tr["reached"]) if tr["reached"] else {}
            v.violation("board:trace:%s" % tr["op"], "random board trace rejected by Board.tla at event %s" % tr["reached"],
                        {"trace": tp, "rejected": ev, "tlc": tr["out_tail"]})
    states = [c for c in cases if c.get("kind") == "state"]
    cov = {
        "states": r.distinct, "transitions": r.generated,
        "traces_validated_against_impl": res["transitions"] + len(traces),
        "samples": [{"alphabet_size": len(cases[0]["ops"]), "first_ops": cases[0]["ops"][:4]},
                    {"state_sig": states[len(states) // 2]["pre"], "successor_sig_of_first_action": states[len(states) // 2]["rows"][0]}],
        "board_states_restored": res["states"], "dac_sweep_cases": swres["cases"], "transitions_replayed": res["transitions"],
        "comparator_f32_cases": cmp["cases"], "clamp_patterns": cs["patterns"], "clamp_classes_nan_neg_high_inrange": cs["classes_nan_neg_high_inrange"],
        "random_trace_events_validated": nev,
        "exhaustive": False,
        "rule": "TLC BFS to depth 3 over the alphabet (all 8 sources x 2 polarities, boundary bytes/millivolts, non-finite classes) with "
                "StateInv and StepOK for every action at every state; all 256 DAC bytes x input 1 mV below / at / above the DAC voltage x 3 input kinds x both orders; every state restored on the real board and every action "
                "replayed (full board signature + reads of F0-F3); clamp rule swept over f32 bit patterns (step %d); random "
                "interleavings validated event by event with StateInv" % step,
    }
    return v.finish("model_checking", cov, ["TLC", "f32 <-> millivolt projection of the harness (exactness checked: off-grid values are flagged)",
                                            "Board::verif_restore hook used to construct states (each read back before use)"])
