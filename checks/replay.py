"""./check <ID> --replay <file>: re-run only the failing case recorded in a replay file (falls back to the whole quick check
when the case cannot be re-run in isolation).  Never rewrites the evidence file."""
import importlib
import json
import os

import vlib
from checks import asm_common as ac

TRACE_CFG = {"C05": ("TraceMachineSup", "TraceMachine"), "C10": ("TraceBus", "TraceBus"), "C14": ("TraceBoard", "TraceBoard"),
             "C15": ("TraceIsaCost", "TraceIsaCost"), "C17": ("TraceTui", "TraceTui")}
TEXT_CFG = {"C02": "TraceAsm_C02", "C03": "TraceParse", "C06": "TraceAsm_C06", "C16": "TraceAsm_C16"}


def replay(prop, path, tier, seed):
    data = json.load(open(path))
    r = data.get("replay") or {}
    key = data.get("key", "")
    print("replaying %s (%s): %s" % (path, key, (data.get("what") or "")[:200]))
    vlib.build_harness()
    vlib.gen_rom()
    if isinstance(r, dict) and r.get("trace") and os.path.exists(r["trace"]):
        cfg, module = TRACE_CFG.get(prop, ("TraceIsa" if "isatrace" in key else "TraceMachine", "TraceIsa" if "isatrace" in key else "TraceMachine"))
        res = vlib.validate_trace(r["trace"], cfg=cfg, module=module)
        if res["accepted"] and not res["violated"]:
            print("the recorded trace is accepted by the specification now")
            return 0
        print("VIOLATION property=%s replay=%s" % (prop, path))
        print("  detail: recorded trace rejected at event %s (%s)" % (res["reached"], res["op"]))
        return 1
    if isinstance(r, dict) and "text" in r and prop in TEXT_CFG:
        p, summ = ac.parse_texts([r["text"]], "replay-" + prop, "parse" if prop == "C03" else "full")
        if prop == "C06":
            import re
            t = vlib.tlc(os.path.join(vlib.SPEC, "trace", "TraceAsm.tla"), os.path.join(vlib.SPEC, "trace", "TraceAsm_C06.cfg"), workers=1,
                         env={"TRACE": p}, xmx="2g", xss="512m", deque=True, name="replay-c06")
            crashes = re.findall(r'<<"CRASH", (\d+), "(\w+)">>', t.out)
            if not crashes:
                print("the recorded program compiles, lists and loads without a crash now")
                return 0
            print("VIOLATION property=%s replay=%s" % (prop, path))
            print("  detail: still crashes (class %s)" % crashes[0][1])
            return 1
        n, rej, outs = ac.judge(p, TEXT_CFG[prop], "TraceParse" if prop == "C03" else "TraceAsm", max_rejects=1, jobs=1)
        if not rej:
            print("the recorded text is judged correct now")
            return 0
        print("VIOLATION property=%s replay=%s" % (prop, path))
        print("  detail: %s" % json.dumps(ac.mutant_sample(rej[0]))[:400])
        return 1
    if isinstance(r, dict) and "case" in r and isinstance(r["case"], dict) and "h" in r["case"]:
        res = vlib.replay_cases([r["case"]], "replay-" + prop)
        if not res["mismatches"]:
            print("the recorded behaviour is reproduced by the real machine now")
            return 0
        print("VIOLATION property=%s replay=%s" % (prop, path))
        print("  detail: %s" % json.dumps(res["first"][0]["diff"])[:400])
        return 1
    print("this case cannot be re-run in isolation; running the whole quick check")
    mod = importlib.import_module("checks." + prop.lower())
    return mod.run("quick", seed, path)
