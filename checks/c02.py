"""C02 - assembler output equals the reference encoding, layout and label resolution."""
import random

import vlib
from checks import asm_common as ac
from checks import textgen as tg


def run(tier, seed, replay):
    v = vlib.Verdict("C02", tier, seed)
    vlib.build_harness()
    rng = random.Random(seed)
    # the encoder table (Asm.tla) and the decoder of the instruction-set definition (Isa.tla's field layout) describe the same set
    import os
    cons = vlib.tlc(os.path.join(vlib.SPEC, "mc", "MC_AsmIsa.tla"), os.path.join(vlib.SPEC, "mc", "MC_AsmIsa.cfg"), workers=4, timeout=900)
    if not cons.ok:
        raise vlib.ToolError("Asm.tla and Isa.tla disagree about the instruction table (specification bug):\n" + cons.out[-3000:])
    shapes = tg.all_shapes()
    texts = []
    if tier == "thorough":
        for s in shapes:
            for ci, ctx in enumerate(tg.CONTEXTS):
                for var in range(4):
                    if "@" not in s and var in (2, 3) and ci % 3:
                        continue
                    texts.append(tg.shape_program(s, ctx, var))
    else:
        for i, s in enumerate(shapes):
            for var in range(4):
                ctx = tg.CONTEXTS[(i * 4 + var + seed) % len(tg.CONTEXTS)]
                if "@" not in s and var >= 2:
                    continue
                texts.append(tg.shape_program(s, ctx, var))
    texts += tg.repo_corpus()
    texts += [t for t in tg.token_mutations(rng) if "0x" in t or "0b" in t]
    texts += tg.numeric_programs()
    texts += [t for t in tg.edge_texts() if "far" in t or "back" in t or "lbl" in t or ":" in t.split("\n")[1][:6]]
    nshape = len(texts)
    texts += [tg.program(rng, nlines=rng.randrange(2, 14)) for _ in range(600 if tier == "quick" else 6000)]
    path, summ = ac.parse_texts(texts, "c02", "full")
    validated, rejected, outs = ac.judge(path, "TraceAsm_C02", "TraceAsm", chunk=500)
    seen = set()
    for rec in rejected:
        t = ac.text_of(rec)
        if "compile_panic" in rec:
            key, what = "asm:panic", "the translator panicked (%s) on a program with a reference encoding: %r" % (rec["compile_panic"][:100], t[:300])
        elif rec.get("v") != "accept":
            key, what = "asm:parse", "program with a reference encoding not accepted by the parser: %r" % t[:300]
        else:
            key, what = "asm:bytes", "byte code differs from Asm!Assemble for %r: real image %s" % (t[:300], rec.get("bc", {}).get("image"))
        if key in seen:
            continue
        seen.add(key)
        v.violation(key, what, {"text": t, "bytecode": rec.get("bc"), "compile_panic": rec.get("compile_panic")})
    cov = {
        "states": validated + 1, "transitions": validated, "traces_validated_against_impl": validated,
        "samples": [{"text": texts[0]}, {"text": texts[nshape // 2]}, {"text": texts[-1]}],
        "instruction_shapes": len(shapes), "asm_isa_table_nodes_checked": cons.distinct, "shape_programs": nshape, "random_programs": len(texts) - nshape, "exhaustive": tier == "thorough",
        "evaluations": len(texts), "distinct_nontrivial": len(set(texts)),
        "rule": "every instruction form x operand shape x register (%d shapes) placed after preceding directives (.ORG forward/same, .BYTE 0/1/3, .DB, .DW, "
                ".EQU, label, instructions, settings) with backward / forward / mixed-case label references and .EQU constants (quick: one context per "
                "shape and variant, rotating with the seed; thorough: all contexts), plus random multi-line programs; parsed and compiled by the real "
                "code; TLC compares every line's bytes, the image and the settings with Asm!Assemble(Mrasm!ParseText(text).ast)" % len(shapes),
    }
    return v.finish("model_checking", cov, ["TLC", "Asm.tla as the instruction table (transcribed once; cross-checked against Isa.tla's decoding by the "
                                            "C01 suites that execute these encodings)", "backward .ORG / oversize images have no reference (C06)"])
