"""C11 - assembly-step mode equals clock-stepping to the next instruction boundary."""
import json
import os
import random

import vlib
from checks import isa_common as ic

P1 = [251, 239, 64, 255, 252, 16, 97, 17, 22, 242, 31, 255, 241, 31, 128, 69, 32, 241]
PINT = json.load(open(os.path.join(vlib.VERIF, "programs", "progint.json")))


def offsets_trace(rng, image, ss, ps, offsets, steps, keys):
    """for every offset j: restart, j single edges (key interrupts at the scheduled edges), then assembly steps"""
    ops = [{"op": "new", "cfg": {"inr": [3, 0, 0, 0]}}]
    for j in offsets:
        ops.append({"op": "mode", "v": "Real"})
        ops.append({"op": "load", "image": image, "ss": ss, "ps": ps})
        done = 0
        for kk in sorted(k for k in keys if k < j):
            if kk > done:
                ops.append({"op": "edge", "n": kk - done})
                done = kk
            ops.append({"op": "key_int"})
        if j > done:
            ops.append({"op": "edge", "n": j - done})
        ops.append({"op": "mode", "v": "Assembly"})
        ops.append({"op": "key_clock", "n": steps})
        # switching the mode at any point does not alter the computation: a few more single edges and steps
        ops.append({"op": "mode", "v": "Real"})
        ops.append({"op": "key_clock", "n": rng.randrange(1, 9)})
        ops.append({"op": "mode", "v": "Assembly"})
        ops.append({"op": "key_clock", "n": 3})
    ops.append({"op": "checkpoint"})
    return ops


LONG_SRC = """#! mrasm
 JR main
isr:
 INC R2
 RETI
main:
 LDSP 0xEF
 MOV (0xF9), 1
 EI
 LD R0, %d
 LD R1, %d
 %s R0, R1
 INC R0
 DI
 STOP
"""


def long_instruction_trace():
    """the longest instructions (DIV with divisor 1, MUL) with a key interrupt pending: the step covers instruction + interrupt entry"""
    ops = [{"op": "new"}]
    for mn, a, b in [("DIV", 255, 1), ("DIV", 254, 1), ("DIV", 253, 1), ("DIV", 252, 1), ("DIV", 200, 1), ("DIV", 255, 2), ("DIV", 255, 0), ("DIV", 0, 1),
                     ("MUL", 255, 255), ("MUL", 255, 1), ("MUL", 1, 255), ("MUL", 0, 0)]:
        for when in ("before", "inside", "late", "never"):
            ops.append({"op": "mode", "v": "Assembly"})
            ops.append({"op": "load_asm", "src": LONG_SRC % (a, b, mn)})
            ops.append({"op": "key_clock", "n": 6})          # JR, LDSP, MOV, EI, LD, LD: at the boundary before DIV / MUL
            if when == "before":
                ops.append({"op": "key_int"})
            elif when != "never":
                ops.append({"op": "mode", "v": "Real"})
                ops.append({"op": "key_clock", "n": 7 if when == "inside" else 14})
                ops.append({"op": "key_int"})
                ops.append({"op": "mode", "v": "Assembly"})
            ops.append({"op": "key_clock", "n": 8})
    return ops


INT_SRC = """#! mrasm
 JR main
isr:
 INC R2
 RETI
main:
 LDSP 0xEF
 MOV (0xF9), 1
 EI
 .DB %s
 NOP
 INC R1
 STOP
"""


def bytes_int_trace(byte_range):
    """every opcode with a key interrupt accepted at its end: the assembly step covers the instruction AND the interrupt entry"""
    ops = [{"op": "new"}]
    for b in byte_range:
        for b2 in ([0x10] if b < 240 else [0x10, 0x05, 0x2C, 0x46, 0x01, 0x70]):
            tail = "%d, 77, %d, 130, 5" % (b, b2) if (b >= 240 and (b >> 2) & 3 >= 2 and b & 3 == 3) else "%d, %d, 130, 5, 2" % (b, b2)
            for when in (0, 1):
                ops.append({"op": "mode", "v": "Assembly"})
                ops.append({"op": "load_asm", "src": INT_SRC % tail})
                ops.append({"op": "key_clock", "n": 4})          # JR, LDSP, MOV, EI: at the boundary before the byte
                if when == 1:
                    ops += [{"op": "mode", "v": "Real"}, {"op": "key_clock", "n": 2}, {"op": "mode", "v": "Assembly"}]
                ops.append({"op": "key_int"})
                ops.append({"op": "key_clock", "n": 4})
    return ops


STOP_SRC = """#! mrasm
 JR main
isr:
 INC R2
 RETI
main:
 LDSP 0xEF
 MOV (0xF9), 1
 %s
 INC R0
 STOP
 INC R0
 PUSH R0
 .DB %s
 INC R0
 STOP
 INC R0
 STOP
"""


def stop_continue_trace():
    """STOP, continue key, then steps: the step after the continue key finishes the STOP - never more; in every mode combination"""
    ops = [{"op": "new"}]
    for ei in ("EI", "NOP"):
        for second in ("2", "0xF4, 0x01", "0xFB, 7, 0x01"):       # a one-byte filler, STOP as the second byte of a two-byte form (with / without constant)
            for variant in range(6):
                ops.append({"op": "mode", "v": "Assembly" if variant % 2 == 0 else "Real"})
                ops.append({"op": "load_asm", "src": STOP_SRC % (ei, second)})
                ops.append({"op": "key_clock", "n": 6 if variant % 2 == 0 else 60})     # runs into the first STOP
                if variant >= 4:
                    ops.append({"op": "key_int"})
                ops.append({"op": "continue"})
                if variant in (2, 3):
                    ops += [{"op": "mode", "v": "Real"}, {"op": "key_clock", "n": 1}]
                ops.append({"op": "mode", "v": "Assembly"})
                for _ in range(3):
                    ops.append({"op": "key_clock", "n": 3})
                    ops.append({"op": "continue"})
    return ops


def bytes_trace(byte_range, all_seconds=False, rng=None):
    ops = [{"op": "new"}, {"op": "mode", "v": "Assembly"}]
    # non-numbers and infinities applied to the board's inputs first: whatever the board stores, a step over a stuck sequencer returns
    ops += [{"op": "set_temp", "x": -1000000}, {"op": "set_ai1", "x": 2000000}, {"op": "set_ai2", "x": -2000000}]
    # ... and with every configurable unit of the bus switched on (interrupt timer running, UART / interrupt masks set): state that a
    # unit advances on its own must not keep the step from recognising a stuck sequencer
    units = [{"op": "bus_write", "a": 0xFD, "v": 0x90}, {"op": "bus_write", "a": 0xFC, "v": 0x33}, {"op": "bus_write", "a": 0xFB, "v": 0xFF},
             {"op": "bus_write", "a": 0xF9, "v": 0x3E}, {"op": "bus_write", "a": 0xF2, "v": 0xC6}]      # (a load is a master reset: re-applied after it)
    for b in byte_range:
        seconds = [0x10] if b < 240 else sorted({0x00, 0x01, 0x05, 0x10, 0x2C, 0x3F, 0x43, 0x47, 0x48, 0x4F, 0x5A, 0x6F, 0x70, 0xAA, 0xFF, b, b ^ 1, b - 16}
                                                | set(rng.sample(range(256), 24) if rng else []))
        if all_seconds and b >= 240:
            seconds = list(range(256))
        for b2 in seconds:
            img = [b, 77, b2, 130, 5] if (b >= 240 and (b >> 2) & 3 >= 2 and b & 3 == 3) else [b, b2, 130, 5, 1]
            ops.append({"op": "load", "image": img, "ss": 16, "ps": 255})
            if (b + b2) % 2 == 0:
                ops += units
            ops.append({"op": "key_clock", "n": 3})
    return ops


def run(tier, seed, replay):
    v = vlib.Verdict("C11", tier, seed)
    vlib.build_harness()
    vlib.gen_rom()
    states = trans = 0
    for s in ["runs", "bytes"]:
        r = vlib.tlc(os.path.join(vlib.SPEC, "mc", "MC_AsmStep.tla"), os.path.join(vlib.SPEC, "mc", "MC_AsmStep_%s.cfg" % s), timeout=3000)
        states += r.distinct
        trans += r.generated
        for inv in r.violated:
            v.violation("asm:spec:" + inv, "the two-phase loop of trigger_key_clock (as modelled) violates %s in suite %s" % (inv, s),
                        {"tlc": r.out[r.out.find("Error: Invariant"):][:5000]})
    rng = random.Random(seed)
    traces = []
    J = 70 if tier == "quick" else 260
    step = 1
    traces.append(vlib.run_scenario(offsets_trace(rng, P1, 32, 255, range(0, J, step), 6, []), "c11-p1")[0])
    traces.append(vlib.run_scenario(offsets_trace(rng, PINT, 16, 255, range(0, J + 60, step), 8, [40, 95]), "c11-pint")[0])
    traces.append(vlib.run_scenario(offsets_trace(rng, PINT, 16, 255, range(100, 100 + J, step), 8, [130, 131, 160]), "c11-pint2")[0])
    for i in range(2 if tier == "quick" else 12):
        img = ic.random_image(rng, True, 100)
        traces.append(vlib.run_scenario(offsets_trace(rng, img, 0, 255, sorted(rng.sample(range(0, 300), 25)), 10, [rng.randrange(300)]), "c11-rnd%d" % i)[0])
    traces.append(vlib.run_scenario(bytes_trace(range(0, 128)), "c11-bytes-a")[0])
    traces.append(vlib.run_scenario(bytes_trace(range(128, 248), rng=rng), "c11-bytes-b")[0])
    traces.append(vlib.run_scenario(bytes_trace(range(248, 256), rng=rng), "c11-bytes-c")[0])
    if tier == "thorough":
        for b in range(240, 256, 2):
            traces.append(vlib.run_scenario(bytes_trace(range(b, b + 2), all_seconds=True), "c11-bytes-all-%d" % b)[0])
    traces.append(vlib.run_scenario(long_instruction_trace(), "c11-long")[0])
    traces.append(vlib.run_scenario(bytes_int_trace(range(0, 128)), "c11-int-a")[0])
    traces.append(vlib.run_scenario(bytes_int_trace(range(128, 256)), "c11-int-b")[0])
    traces.append(vlib.run_scenario(stop_continue_trace(), "c11-stop")[0])
    results = vlib.validate_traces(traces, cfg="TraceMachine")
    nev = ic.report_trace_results(v, traces, results, "asmtrace", "assembly-step")
    cov = {
        "states": states, "transitions": trans, "traces_validated_against_impl": len(traces),
        "samples": [{"trace": traces[0]}, {"offset_scheme": "for j in 0..%d: load, j single edges, then assembly steps, mode switches" % J}],
        "trace_events_validated": nev, "exhaustive": False,
        "rule": "TLC: the code-shaped two-phase loop walked next to the declarative definition from every state of the edge-by-edge runs of the "
                "program suite (key interrupt at any point) and from a boundary with every byte at PC (every second byte for the two-byte class); "
                "real machine: for every offset j the program is clocked j single edges and then stepped in assembly mode (each step's edge count "
                "measured against a single-stepped clone; watchdog for non-return), all 256 bytes at PC (two-byte class with second byte = prefix and sampled / all second bytes), DIV by 1 / MUL with a key interrupt pending before / inside the instruction, every opcode with a key interrupt accepted at its end, STOP + continue key + steps in every mode combination, mode switches; validated by TraceMachine",
    }
    return v.finish("model_checking", cov, ["TLC", "an edge that changes nothing is unobservable: the step of a stuck sequencer may issue it"])
