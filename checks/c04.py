"""C04 - key interrupts are taken once, at an instruction boundary, and transparently."""
import json
import os
import random

import vlib
from checks import isa_common as ic

PROGS = {1: json.load(open(os.path.join(vlib.VERIF, "programs", "progint.json"))),
         2: json.load(open(os.path.join(vlib.VERIF, "programs", "progint2.json"))),
         3: json.load(open(os.path.join(vlib.VERIF, "programs", "progint3.json"))),
         4: json.load(open(os.path.join(vlib.VERIF, "programs", "progint4.json")))}
MC = os.path.join(vlib.SPEC, "mc", "MC_Int.tla")


def schedule_ops(img, sched, total):
    """sched entries: t >= 0 = interrupt key before clock edge t; negative = continue key before edge (-1 - entry)"""
    ops = [{"op": "new"}, {"op": "load", "image": img, "ss": 16, "ps": 255}, {"op": "set_input", "k": 0, "v": 3}]
    done = 0
    for e in sched:
        t = e if e >= 0 else -1 - e
        if t > done:
            ops.append({"op": "edge", "n": t - done})
            done = t
        ops.append({"op": "key_int"} if e >= 0 else {"op": "continue"})
    if total > done:
        ops.append({"op": "edge", "n": total - done})
    return ops


def run(tier, seed, replay):
    v = vlib.Verdict("C04", tier, seed)
    vlib.build_harness()
    vlib.gen_rom()
    states = trans = 0
    cases = []
    per = {}
    passes = [(1, "single"), (2, "single"), (3, "single"), (4, "single"), (4, "pair")] + ([(1, "pair"), (2, "pair"), (3, "pair")] if tier == "thorough" else [(2, "pair")])
    refs = {}
    for which in (1, 2, 3, 4):
        r = vlib.tlc(MC, os.path.join(vlib.SPEC, "mc", "MC_Int_ref%d.cfg" % which), workers=1, timeout=900, name="int-ref%d" % which)
        if r.violated:
            v.violation("int:ref:%d" % which, "the uninterrupted run of interrupt-suite program %d does not reach STOP on Micro.tla: %s" % (which, r.violated), {})
            continue
        c = vlib.tlc_replay_lines(r.out)
        refs[which] = os.path.join(vlib.WORK, "int_ref%d.json" % which)
        json.dump(c[0]["final"], open(refs[which], "w"))
        states += r.distinct
        trans += r.generated
    for which, kind in passes:
        if which not in refs:
            continue
        r = vlib.tlc(MC, os.path.join(vlib.SPEC, "mc", "MC_Int_%s%d.cfg" % (kind, which)), env={"REF": refs[which]}, timeout=6000,
                     name="int-%s%d" % (kind, which), xmx="24g")
        states += r.distinct
        trans += r.generated
        sch = vlib.tlc_replay_lines(r.out)
        per["prog%d-%s" % (which, kind)] = {"states": r.distinct, "schedules": len(sch),
                                            "entries_hist": {str(k): sum(1 for x in sch if x["entries"] == k) for k in (0, 1, 2)}}
        for inv in r.violated:
            v.violation("int:spec:%s" % inv, "Micro.tla with the tree's control store violates %s for program %d (%s presses)" % (inv, which, kind),
                        {"tlc": r.out[r.out.find("Error:"):][:6000]})
        for x in sch:
            ops = schedule_ops(PROGS[which], x["sched"], x["t"])
            cases.append({"pre": ops[:3], "h": ops[3:], "s": x["s"], "sched": x["sched"], "prog": which, "entries": x["entries"]})
    # S->I: every schedule on the real machine, full final projection (private fields included)
    res = vlib.replay_cases(cases, "c04")
    seen = set()
    for f in res["first"]:
        key = "int:replay:prog%d" % f["case"]["prog"]
        if key in seen:
            continue
        seen.add(key)
        v.violation(key, "real machine differs from Micro.tla at STOP for key presses before clock cycles %s of program %d: %s"
                    % (f["case"]["sched"], f["case"]["prog"], f["diff"][:5]), {"sched": f["case"]["sched"], "prog": f["case"]["prog"], "diff": f["diff"]})
    # I->S: a sample of schedules validated edge by edge
    rng = random.Random(seed)
    sample = rng.sample(cases, min(len(cases), 12 if tier == "quick" else 80))
    ops = []
    for c in sample:
        ops += c["pre"] + c["h"]
    tp, summ = vlib.run_scenario(ops, "c04-sample")
    tr = vlib.validate_trace(tp, cfg="TraceMachine")
    nev = ic.report_trace_results(v, [tp], [tr], "inttrace", "interrupt schedule")
    cov = {
        "states": states, "transitions": trans, "traces_validated_against_impl": res["cases"] + 1,
        "samples": [{"sched": cases[len(cases) // 2]["sched"], "entries": cases[len(cases) // 2]["entries"], "prog": cases[len(cases) // 2]["prog"]}],
        "schedules_replayed": res["cases"], "per_pass": per, "trace_events_validated": nev, "exhaustive": False,
        "rule": "TLC: for each interrupt-suite program every trigger cycle 0..T (single press) and every pair with the second press within 12 cycles (70 cycles for the program whose routine re-enables interrupts: nested entries); "
                "EntryStep (routine entered only from an int: word), NoSpurious, AtEnd (every effective press consumed exactly once; presses made while "
                "enabled are entered unless the program disables interrupts first; counter cell = entries), Transparent (registers, flags, SP, outputs, "
                "live memory equal to the uninterrupted run); every schedule replayed on the real machine and the full final state compared",
    }
    return v.finish("model_checking", cov, ["TLC", "sampling semantics: a press during DI / the entry sequence is dropped or deferred by design; dead stack "
                                            "slots below the final SP and the routine's counter cell are masked in the comparison",
                                            "four main x interrupt-routine programs (a routine that re-enables interrupts itself and is entered again while running, MUL/DIV loops, CALL/RET, PUSH/POP, PUSHF/POPF, EI/DI/RETI windows, key enable bit toggled while IE is set, a pausing STOP resumed by the continue key with the key pressed while paused)"])
