"""Generators of mrasm texts: grammar-derived programs covering every instruction form, numeric base,
boundary value, spacing and case variant; token / character mutations; arbitrary Unicode strings."""
import random

REGS = ["R0", "R1", "R2", "R3", "PC", "r0", "r1", "r2", "r3"]
LABELS = ["loop", "LOOP", "Main", "x1", "_tmp", "done_2", "a", "Zebra", "very_long_label_name_with_many_chars_0123456789", "l", "Q"]
REG1 = ['CLR', 'INC', 'NEG', 'COM', 'TST', 'LSR', 'ASR', 'LSL', 'RRC', 'RLC', 'PUSH', 'POP']
REG2 = ['ADD', 'ADC', 'SUB', 'MUL', 'DIV', 'AND', 'OR', 'XOR']
SRC1 = ['DEC', 'LDSP', 'LDFR']
DSTSRC = ['MOV', 'CMP', 'BITT', 'BITS', 'BITC']
JUMP = ['JMP', 'JCS', 'JCC', 'JZS', 'JZC', 'JNS', 'JNC', 'JR', 'CALL']
NOOP = ['PUSHF', 'POPF', 'RET', 'RETI', 'STOP', 'NOP', 'EI', 'DI']


def case(rng, s):
    k = rng.randrange(4)
    return s if k == 0 else s.lower() if k == 1 else s.upper() if k == 2 else "".join(c.upper() if rng.random() < 0.5 else c.lower() for c in s)


def num(rng, maxv, boundary=True):
    vals = [0, 1, 9, 10, 99, 100, 127, 128, 199, 200, 249, 250, 254, maxv]
    if maxv > 255:
        vals += [255, 256, 999, 1000, 9999, 10000, 65534, 59999, 60000, 65529, 65530]
    v = rng.choice(vals + [rng.randrange(maxv + 1)])
    return spell(rng, v)


def spell(rng, v, allow_zeros=True):
    r = rng.randrange(3)
    z = "0" * rng.choice([0, 0, 0, 1, 3]) if allow_zeros else ""
    if r == 0:
        return z + str(v)
    if r == 1:
        return "0x" + z + (("%x" % v) if rng.random() < 0.5 else ("%X" % v))
    return "0b" + z + bin(v)[2:]


def const(rng, labels):
    if labels and rng.random() < 0.35:
        return case(rng, rng.choice(labels))
    return num(rng, 255)


def operand(rng, kinds, labels):
    k = rng.choice(sorted(kinds))
    r = rng.choice(REGS)
    if k == "r":
        return r
    if k == "m":
        return "(%s)" % (r if rng.random() < 0.5 else const(rng, labels))
    if k == "di":
        return "(%s+)" % r
    if k == "ddi":
        return "((%s+))" % r
    return const(rng, labels)


SRC = {"r", "m", "di", "ddi", "c"}
DST = {"r", "m", "di", "ddi"}


def sep(rng):
    return "," + rng.choice(["", " ", "  ", "\t", " \t "])


def blank(rng):
    return rng.choice([" ", "\t", "  ", " \t", "    "])


def instruction(rng, labels):
    g = rng.randrange(12)
    if g == 0:
        return case(rng, rng.choice(NOOP))
    if g == 1:
        return case(rng, rng.choice(REG1)) + blank(rng) + rng.choice(REGS)
    if g == 2:
        return case(rng, rng.choice(REG2)) + blank(rng) + rng.choice(REGS) + sep(rng) + rng.choice(REGS)
    if g == 3:
        return case(rng, rng.choice(SRC1)) + blank(rng) + operand(rng, SRC, labels)
    if g in (4, 5):
        return case(rng, rng.choice(DSTSRC)) + blank(rng) + operand(rng, DST, labels) + sep(rng) + operand(rng, SRC, labels)
    if g == 6:
        return case(rng, "LD") + blank(rng) + rng.choice(REGS) + sep(rng) + operand(rng, {"m", "c"}, labels)
    if g == 7:
        return case(rng, "ST") + blank(rng) + operand(rng, {"m"}, labels) + sep(rng) + rng.choice(REGS)
    if g == 8 and labels:
        return case(rng, rng.choice(JUMP)) + blank(rng) + case(rng, rng.choice(labels))
    if g == 9:
        d = rng.randrange(6)
        if d == 0:
            return case(rng, ".ORG") + blank(rng) + num(rng, 255)
        if d == 1:
            return case(rng, ".BYTE") + blank(rng) + num(rng, 255)
        if d == 2:
            return case(rng, ".DB") + blank(rng) + sep(rng).join(num(rng, 255) for _ in range(rng.randrange(1, 5)))
        if d == 3:
            return case(rng, ".DW") + blank(rng) + sep(rng).join(num(rng, 65535) for _ in range(rng.randrange(1, 4)))
        if d == 4:
            return case(rng, "*STACKSIZE") + blank(rng) + rng.choice(["0", "16", "32", "48", "64", case(rng, "NOSET")])
        return case(rng, "*PROGRAMSIZE") + blank(rng) + rng.choice([str(rng.choice([0, 1, 99, 255])), "007", case(rng, "AUTO"), case(rng, "NOSET")])
    return case(rng, rng.choice(REG1)) + blank(rng) + rng.choice(REGS)


COMMENTS = ["", ";", "; comment", ";;; x ;;", "; ; x", "; x ; ;", ";;x;; ;", "; ;", " ;\t; y ;\t;", ";a;", " ; trailing  ", ";\t", "; with ; inside", "; ünïcödé €", ";#! mrasm", "; (R0+), 0x12"]


def program(rng, nlines=None, ndefs=None):
    nlines = nlines if nlines is not None else rng.randrange(0, 9)
    k = ndefs if ndefs is not None else rng.randrange(0, 5)
    labels = rng.sample(LABELS, min(k, len(LABELS)))
    # avoid case-insensitive duplicates
    seen, lab = set(), []
    for l in labels:
        if l.lower() not in seen:
            seen.add(l.lower())
            lab.append(l)
    lines = []
    for l in lab:
        if rng.random() < 0.3:
            lines.append(case(rng, ".EQU") + blank(rng) + l + blank(rng) + str(rng.choice([0, 7, 255, 12])))
        else:
            lines.append(l + ":")
    for _ in range(nlines):
        lines.append(instruction(rng, lab))
    rng.shuffle(lines)
    out = []
    for l in lines:
        pre = rng.choice(["", "", " ", "\t", "    "])
        c = rng.choice(COMMENTS)
        post = rng.choice(["", " ", "\t"]) if c else rng.choice(["", "", " ", "\t "])
        out.append(pre + l + post + c)
    if rng.random() < 0.3:
        out.insert(rng.randrange(len(out) + 1), rng.choice(["", " ", "\t", "; only a comment", "  ;"]))
    header = "#! mrasm" + rng.choice(["", "", " ", "\t", ";c", " ; header comment", "\t;x"])
    eol = rng.choice(["\n", "\n", "\n", "\r\n"])
    text = header + eol + eol.join(out)
    if rng.random() < 0.5:
        text += eol
    return text


ALPHABET = list(" \t;:,()+0123456789abxABXrRpPcCsSlLdD.*_#!-") + ["€", "ä", "\x00", "\r", "\n", "F", "f", "g", "Z"]


def mutate_chars(rng, text, n=1):
    c = list(text)
    for _ in range(n):
        if not c:
            c.append(rng.choice(ALPHABET))
            continue
        pos = rng.randrange(len(c))
        op = rng.randrange(3)
        if op == 0:
            del c[pos]
        elif op == 1:
            c.insert(pos, rng.choice(ALPHABET))
        else:
            c[pos] = rng.choice(ALPHABET)
    return "".join(c)


def token_mutations(rng):
    """hand-picked single-token mutations of valid lines, each embedded in a small valid program"""
    base = ["lbl:", ".EQU foo 12"]
    probes = []
    for n in ["255", "256", "0255", "00256", "0xFF", "0x100", "0x0FF", "0x0100", "0b11111111", "0b100000000", "0b011111111", "0b0100000000",
              "0x", "0b", "0b2", "0xG", "12a", "1_0", "0XFF", "0B1", "-1", "+1", "25 5"]:
        probes += ["LD R0, " + n, ".DB " + n, ".ORG " + n, "MOV (" + n + "), R1", ".BYTE " + n]
    for n in ["65535", "65536", "065535", "0065536", "0xFFFF", "0x10000", "0x0FFFF", "0b1111111111111111", "0b10000000000000000", "70000", "99999", "100000"]:
        probes += [".DW " + n, ".DW 1," + n, ".DB 1, 2," + n]
    probes += ["ADD R0 R1", "ADD R0,,R1", "ADD R0;R1", "ADD R0, R4", "ADD R0, (R1)", "ADD R0", "ADD", "ADDR0,R1", "CLR 5", "CLR (R0)", "CLR R0, R1",
               "MOV 5, R0", "MOV R0", "MOV R0,", "MOV ,R0", "MOV (R0+, R1", "MOV ((R0)), R1", "MOV ((R0+)), ((R1+))", "MOV (R0+), (R1+)", "ST R0, R1", "ST (5), 5",
               "LD (R0), R1", "LD R0, (R1+)", "LD R0, ((R1+))", "JMP 5", "JMP R0", "JMP", "JMP lbl extra", "JMP nolabel", "CALL (lbl)", "lbl2", "lbl2 :", ": x", "5lbl:",
               "DEC (lbl)", "DEC foo", "DEC 0x10", "DEC ((R3+))", "LDSP lbl", "LDFR (0xF9)", ".EQU bar", ".EQU bar 0x10", ".EQU bar 256", ".EQU 5 5", ".EQU bar,5",
               "*STACKSIZE 8", "*STACKSIZE 016", "*STACKSIZE", "*PROGRAMSIZE 256", "*PROGRAMSIZE 0x10", "*PROGRAMSIZE auto", ".ORG", ".DB", ".DB 1,", ".DB ,1", ".DB 1 2",
               ".XYZ 1", "NOP NOP", "NOP ; ok", "STOP R0", "RETI;x", "EI\tDI", "PUSHF R0", "MOV R0 , R1", "MOV R0 ,R1", "MOV ( R0), R1", "MOV (R0 ), R1", "LD pc, 1", "LD Pc, 1",
               "LD R00, 1", "LD R, 1", "LD r3, 1", "lbl: NOP", "MOV (lbl), lbl", "pcount:", "Pc1:", "pC:", "pc:", "rx:", "r:", "Result:", "spam:", "Sp:", "sP0:", ".EQU pc 7", ".EQU pcx 7", ".EQU rr 1",
               ".EQU Spx 2", "JMP pcount", "LD R0, pcount", "MOV (rx), R0", "LD R0, sp", "CALL r9", "LD R0, R4", "LD R0, R10", "LD R0, (R4)", "LD R0, (pc)", "LD R0, (Pc+)", "MOV lbl, R0", "BITS (foo), FOO", "CMP (PC+), (r3)", "Rx:", "PCx:", "SPam:", "mov:", "NOP:"]
    # every hex / binary spelling that begins with a letter digit (a-f, A-F), with and without leading zeros, in every numeric position
    for d in "abcdefABCDEF":
        for n in ["0x" + d, "0x0" + d, "0x" + d + "0", "0x" + d + d, "0x" + d + "5", "0x00" + d + "b", "0x" + d.swapcase() + d]:
            probes += ["LD R0, " + n, ".DB " + n + ", " + n, ".ORG " + n, "MOV (" + n + "), R1", ".BYTE " + n, ".EQU bar " + n, "LDSP " + n, "ST (" + n + "), R1", ".DW " + n + "0" + d]
    for n in ["0b1", "0b01", "0b10", "0b0", "0b00000001", "0b10110101", "0b1011", "08", "09", "010", "0100", "0010", "00"]:
        probes += ["LD R0, " + n, ".DB " + n, ".ORG " + n, ".BYTE " + n, ".EQU bar " + n, ".DW " + n, "*PROGRAMSIZE " + n, "*STACKSIZE " + n]
    out = []
    for p in probes:
        out.append("#! mrasm\n" + "\n".join(base + [p]) + "\n")
    # header variants
    for h in ["#! mrasm", "#!mrasm", "#! MRASM", " #! mrasm", "#! mrasm  ", "#! mrasm x", "#! mrasm;", "#! mrasm ;c", "#!  mrasm", "", "#", "#! mrasm\r\nNOP", "#! mrasm\rNOP", "#! mrasm\n\rNOP"]:
        out.append(h + ("\nNOP" if "\n" not in h and "\r" not in h else ""))
        out.append(h)
    # label counts 40 / 41, undefined / case-insensitive references
    for n in (39, 40, 41, 42):
        out.append("#! mrasm\n" + "\n".join("l%d:" % i for i in range(n)) + "\nJMP l0\n")
        out.append("#! mrasm\n" + "\n".join(".EQU e%d 1" % i for i in range(n)))
    # the limit counts definitions, not distinct names
    out.append("#! mrasm\n" + "\n".join("l%d:" % i for i in range(40)) + "\nl0:\n")
    out.append("#! mrasm\n" + "\n".join("l%d:" % i for i in range(40)) + "\nL7:\nJMP l0\n")
    out.append("#! mrasm\n" + "\n".join("l%d:" % (i % 20) for i in range(41)) + "\n")
    out.append("#! mrasm\n" + "\n".join("l%d:" % i for i in range(39)) + "\n.EQU l0 5\n.EQU L1 6\n")
    out.append("#! mrasm\nAbc:\nJMP ABC\nJMP abc\nLD R0, aBC\n")
    out.append("#! mrasm\nAbc:\nabc:\n")
    out.append("#! mrasm\nJMP abd\nabc:\n")
    return out


def edge_texts():
    """deterministic corner programs shared by the parser / translator / formatter checks"""
    out = []
    # references that are a prefix / an extension / a case variant of a defined name
    for d, r in [("lo", "loop"), ("loop", "lo"), ("a", "ab"), ("ab", "a"), ("Loop", "LOOPS"), ("loops", "LOOP"), ("x_1", "x_"), ("x_", "x_1"), ("e", "E"), ("lo", "LO")]:
        for use in ["JMP %s", "JR %s", "LD R0, %s", "MOV (%s), R1", "CALL %s", "DEC %s", "LDSP (%s)"]:
            out.append("#! mrasm\n%s:\n%s\n" % (d, use % r))
        out.append("#! mrasm\n.EQU %s 5\nLD R1, %s\n" % (d, r))
    # the 41st definition repeats the name just defined (same / other case, label / constant): still 41 definitions
    forty = "\n".join("L%d:" % i for i in range(40))
    for extra in ["L39:", "l39:", ".EQU L39 5", ".EQU l39 5", "L39:\nl39:\nL39:", "L0:"]:
        out.append("#! mrasm\n%s\n%s\n" % (forty, extra))
    out.append("#! mrasm\n" + "\n".join(".EQU e%d %d" % (i, i) for i in range(40)) + "\n.EQU e39 9\n")
    out.append("#! mrasm\n" + "\n".join("L%d:\nl%d:" % (i, i) for i in range(21)) + "\n")
    # two operands that are both names: each combination of defined / undefined, for every two-operand mnemonic and operand form
    for mn in ["MOV", "CMP", "BITT", "BITS", "BITC"]:
        for dst, src in [("(buf)", "nowhere"), ("(nowhere)", "buf"), ("(buf)", "(nowhere)"), ("(nowhere)", "(buf)"), ("(buf)", "buf"), ("(buf)", "BUF"), ("(k)", "nowhere"), ("(nowhere)", "k")]:
            out.append("#! mrasm\nbuf:\n.EQU k 7\n %s %s, %s\n" % (mn, dst, src))
    for line in ["LD R0, nowhere", "LD R0, (nowhere)", "ST (nowhere), R0", "LDSP nowhere", "LDFR (nowhere)", "DEC nowhere", "JR nowhere", "CALL nowhere", ".DB nowhere", ".ORG nowhere"]:
        out.append("#! mrasm\nbuf:\n MOV (buf), buf\n %s\n" % line)
    # long names that agree on their first n characters and differ afterwards (n around every plausible truncation length)
    stem = "WAIT_UNTIL_THE_TEMPERATURE_SENSOR_IS_READY_AND_THE_FAN_HAS_REACHED_ITS_SPEED_"
    for n in [7, 8, 15, 16, 20, 24, 30, 31, 32, 33, 39, 40, 41, 47, 48, 63, 64, 65]:
        d, r = stem[:n] + "a1", stem[:n] + "b2"
        for use in ["JMP %s", "JZS %s", "LD R0, %s", "MOV (%s), R1", "DEC %s"]:
            out.append("#! mrasm\n%s:\n%s\n" % (d, use % r))
            out.append("#! mrasm\n%s:\n%s:\n%s\n%s\n" % (d, r.lower(), use % r.upper(), use % d.lower()))
        out.append("#! mrasm\n.EQU %s 5\nLD R1, %s\n" % (d, r))
        out.append("#! mrasm\n.EQU %s 5\n.EQU %s 6\nLD R1, %s\nLD R2, %s\n" % (d, r, r, d))
    # relative jumps over every distance around the signed-byte limits, forward and backward, and across the 256 wrap
    for dist in [0, 1, 2, 100, 124, 125, 126, 127, 128, 129, 130, 200, 250, 253]:
        for j in ["JR", "JZS", "JCC", "JNS"]:
            out.append("#! mrasm\n%s far\n.BYTE %d\nfar:\nSTOP\n" % (j, dist))
            out.append("#! mrasm\nback:\n.BYTE %d\n%s back ; comment\n" % (dist, j))
    out.append("#! mrasm\n.ORG 250\nJR lbl\n.ORG 3\nlbl:\n")
    # long labels / long operands with and without comments (comment column)
    for n in [1, 20, 28, 29, 30, 31, 32, 33, 39, 40, 41, 60, 120]:
        lab = ("L" + "abcdefghi_" * 13)[:n]
        out.append("#! mrasm\n%s: ; c\n%s:\n" % (lab, lab + "x"))
        out.append("#! mrasm\n%s:;c\n JMP %s ; comment ; with ; semicolons ;\n MOV ((%s)), ((%s));x\n" % (lab, lab, lab, lab))
    # value lists of every length 1..40 (and a few longer), with and without a comment
    for n in list(range(1, 41)) + [64, 100, 239]:
        vals = ", ".join(str((i * 37 + n) % 256) for i in range(n))
        out.append("#! mrasm\n.DB %s ; %d values\nSTOP\n" % (vals, n))
        if n <= 60:
            out.append("#! mrasm\n.DW %s\n" % ",".join("0x%X" % ((i * 4099 + n) % 65536) for i in range(n)))
    # comments made of semicolons and blanks in every arrangement up to length 5, on every kind of line
    import itertools
    for n in range(1, 6):
        for combo in itertools.product("; \tx", repeat=n):
            c = "".join(combo)
            if n >= 4 and "x" not in c:
                continue
            out.append("#! mrasm ;%s\nl: ;%s\n NOP ;%s\n;%s\n" % (c, c, c, c))
    return out


def spellings(v):
    """every spelling of the byte v: decimal, 0x with either letter case, 0b - each with 0..2 leading zeros"""
    out = []
    for z in ("", "0", "00"):
        out += [z + "%d" % v, "0x" + z + "%x" % v, "0x" + z + "%X" % v, "0b" + z + bin(v)[2:]]
    return sorted(set(out))


def numeric_programs():
    """one small program per (byte value, spelling): the value in every numeric position (directives and operands)"""
    out = []
    for v in range(256):
        for sp in spellings(v):
            k = min(v, 6)
            lines = [".BYTE %d" % k]
            if v <= 200:
                lines.append(".ORG " + sp)
            lines += [".DB " + sp + ", " + sp, " LD R0, " + sp, " MOV (" + sp + "), R1", ".DW " + sp, " LDSP " + sp]
            if v <= 20:
                lines.append(".BYTE " + sp)
            out.append("#! mrasm\n" + "\n".join(lines) + "\n")
    return out


def long_texts(rng, tier="quick"):
    """texts that are long in one dimension: many lines, one very long comment / blank run / operand list / label, many empty lines"""
    def prog(n):
        pool = [" INC R0 ; comment number %d with some more words in it", " MOV (R1+), ((R2+))", "\tLD R0, 0x%02X", "", " ; just a comment %d", " ADD R0, R1",
                "\tST (0xFE), R2\t; %d", " JR l3", ".DB %d", " CLR R1;%d"]
        lines = []
        for i in range(n):
            p = rng.choice(pool)
            lines.append(p % (i % 256) if "%" in p else p)
        lines.insert(rng.randrange(len(lines)), "l3:")
        return "#! mrasm\n" + "\n".join(lines) + "\n"
    sizes = [700, 1500, 2500] if tier == "quick" else [700, 1500, 2500, 4000, 6000]
    out = [prog(n) for n in sizes]
    out.append("#! mrasm\r\n" + "\r\n".join(" NOP" for _ in range(3000)))
    for n in ([5000, 60000, 200000] if tier == "quick" else [5000, 60000, 200000, 1000000]):
        out.append("#! mrasm\n NOP ; " + "x" * n + "\n")
        out.append("#! mrasm ; " + "ä€" * (n // 2) + "\nNOP")
        out.append("#! mrasm\n" + " " * n + "NOP" + "\t" * (n // 10) + ";c\n")
    out.append("#! mrasm\n" + "\n" * 8000 + "STOP\n" + "\n" * 100)
    out.append("#! mrasm\n.DB " + ", ".join(str(i % 256) for i in range(400)) + "\n")
    out.append("#! mrasm\n.DW " + ",".join("0x%04X" % (i * 17 % 65536) for i in range(400)) + " ; tail\n")
    lab = "L" + "abcdefghij" * 800
    out.append("#! mrasm\n%s:\n JMP %s\n" % (lab, lab.upper()))
    out.append("#! mrasm\n.EQU %s 5\n LD R0, %s\n" % (lab, lab))
    out.append("#! mrasm\n LD R0, " + "0" * 5000 + "12\n .DW 0x" + "0" * 5000 + "FFFF\n .DB 0b" + "0" * 3000 + "1\n")
    return out


# characters that look like blanks / are invisible but are NOT blanks of the language
ODD_SPACES = ["\ufeff", "\u00a0", "\u200b", "\ufffe", "\u2028", "\u2029", "\x0b", "\x0c", "\u0085", "\u3000", "\u2003", "\u00ad", "\x1a", "\x00", "\x7f", "\u202f"]


def odd_space_texts():
    out = []
    for c in ODD_SPACES:
        out += [c + "#! mrasm\nNOP\n", "#! mrasm" + c + "\nNOP\n", "#! mrasm\n" + c + "NOP\n", "#! mrasm\nNOP" + c + "\n", "#! mrasm\nNOP\n" + c,
                "#! mrasm\nINC" + c + "R0\n", "#! mrasm\nMOV R0," + c + "R1\n", "#! mrasm\n" + c + "\nNOP\n", "#!" + c + "mrasm\nNOP\n", "#! mrasm\nl" + c + ":\n",
                "#! mrasm\nNOP ;" + c + "x" + c + "\n", "#! mrasm ;" + c + "\nl:\n", c, c + "\n#! mrasm\nNOP\n"]
    return out


def unicode_strings(rng, n):
    out = []
    for _ in range(n):
        k = rng.randrange(0, 40)
        pool = rng.choice([ALPHABET, [chr(rng.randrange(1, 0x2FFF)) for _ in range(8)] + list("#! mrasm\n"), list("#! mrasm\nNOPR0,; \t")])
        s = "".join(rng.choice(pool) for _ in range(k))
        if rng.random() < 0.6:
            s = "#! mrasm\n" + s
        out.append(s)
    return out


def cps(text):
    return [ord(c) for c in text]


# ---------------------------------------------------------------- exhaustive instruction shapes (C02)

def all_shapes():
    """every instruction form x every operand shape x every register (canonical spelling); `@` marks a label reference"""
    R = ["R0", "R1", "R2", "R3"]
    out = []
    for m in NOOP:
        out.append(m)
    for m in REG1:
        out += ["%s %s" % (m, r) for r in R]
    for m in REG2:
        out += ["%s %s, %s" % (m, a, b) for a in R for b in R]

    def ops(kinds):
        o = []
        if "r" in kinds:
            o += R
        if "m" in kinds:
            o += ["(%s)" % r for r in R] + ["(0x42)", "(@)"]
        if "di" in kinds:
            o += ["(%s+)" % r for r in R]
        if "ddi" in kinds:
            o += ["((%s+))" % r for r in R]
        if "c" in kinds:
            o += ["0x37", "@"]
        return o
    for m in SRC1:
        out += ["%s %s" % (m, s) for s in ops(SRC)]
    for m in DSTSRC:
        out += ["%s %s, %s" % (m, d, s) for d in ops(DST) for s in ops(SRC)]
    out += ["LD %s, %s" % (r, s) for r in R for s in ops({"m", "c"})]
    out += ["ST %s, %s" % (d, r) for d in ops({"m"}) for r in R]
    for m in JUMP:
        out.append("%s @" % m)
    return out


CONTEXTS = [[], [".ORG 5"], [".ORG 0"], [".BYTE 0"], [".BYTE 1"], [".BYTE 3"], [".DB 1, 2, 3"], [".DW 0x1234, 7"], [".EQU seven 7"], ["before:"],
            ["NOP", "LD R0, 0x10"], ["*STACKSIZE 48", "*PROGRAMSIZE 99"], [".BYTE 2", ".ORG 9", ".DB 5"]]


def shape_program(shape, ctx, variant):
    """variant: 0 backward label, 1 forward label, 2 mixed-case reference, 3 .EQU constant"""
    lab_def, lab_ref = "Target", "Target"
    if variant == 2:
        lab_ref = "tARGET"
    line = shape.replace("@", lab_ref)
    body = list(ctx)
    if variant == 3:
        return "#! mrasm\n" + "\n".join([".EQU %s 200" % lab_def] + body + ["\t" + line, "STOP"])
    if variant == 1:
        return "#! mrasm\n" + "\n".join(body + ["\t" + line, "NOP", lab_def + ":", "STOP"])
    return "#! mrasm\n" + "\n".join(body[:1] + [lab_def + ":"] + body[1:] + ["\t" + line, "STOP"])


def repo_corpus():
    """the repository's own example / test programs (read from the working tree at check time)"""
    import glob
    out = []
    for f in sorted(glob.glob("/repo/programs/*.asm") + glob.glob("/repo/testing/programs/*.asm")):
        try:
            out.append(open(f, encoding="utf-8").read())
        except Exception:
            pass
    return out
