"""C16 - formatting a parsed program and re-parsing it yields the same program."""
import random

import vlib
from checks import asm_common as ac
from checks import textgen as tg


def run(tier, seed, replay):
    v = vlib.Verdict("C16", tier, seed)
    vlib.build_harness()
    rng = random.Random(seed)
    n = 1500 if tier == "quick" else 15000
    texts = [tg.program(rng, nlines=rng.randrange(0, 12)) for _ in range(n)]
    texts += tg.repo_corpus()
    texts += tg.edge_texts()
    texts += tg.odd_space_texts()
    texts += tg.long_texts(rng, tier)[:6]
    shapes = tg.all_shapes()
    step = 6 if tier == "quick" else 1
    texts += [tg.shape_program(s, tg.CONTEXTS[i % len(tg.CONTEXTS)], i % 4) for i, s in enumerate(shapes) if i % step == 0]
    texts += ["#! mrasm", "#! mrasm\n", "#! mrasm ;", "#! mrasm ; c\n\n\n", "#! mrasm\n;\n;;\n; ; \n", "#! mrasm\nl:\n.EQU e 0\n.DB 0\n.DW 65535\n"]
    path, summ = ac.parse_texts(texts, "c16", "full")
    validated, rejected, outs = ac.judge(path, "TraceAsm_C16", "TraceAsm", chunk=500)
    seen = set()
    for rec in rejected:
        t = ac.text_of(rec)
        rendered = "".join(chr(c) for c in rec.get("rendered", []))
        if "render_panic" in rec:
            key, what = "fmt:panic", "rendering panicked: %s" % rec["render_panic"][:100]
        elif rec.get("reparse") != "accept":
            key, what = "fmt:rejected", "the rendering %r of %r is not accepted by the parser: %s" % (rendered[:200], t[:200], rec.get("reparse_why", "")[:120])
        elif not rec.get("same"):
            key, what = "fmt:different", "the rendering %r of %r parses to a different program" % (rendered[:200], t[:200])
        else:
            key, what = "fmt:spec", "the rendering %r of %r is not the same program according to Mrasm.tla" % (rendered[:200], t[:200])
        if key in seen:
            continue
        seen.add(key)
        v.violation(key, what, {"text": t, "rendered": rendered})
    cov = {
        "states": validated + 1, "transitions": validated, "traces_validated_against_impl": validated,
        "samples": [{"text": texts[1]}, {"text": texts[-2]}], "texts": len(texts), "exhaustive": False,
        "evaluations": len(texts), "distinct_nontrivial": len(set(texts)),
        "rule": "accepted programs (random multi-line programs with comments incl. ';' and non-ASCII, long / mixed-case labels, all numeric spellings; every "
                "instruction shape) are rendered by the real Display and re-parsed by the real parser; TLC requires the rendering to be accepted by "
                "Mrasm.tla with the identical AST and header comment, and the real re-parse to return an equal program",
    }
    return v.finish("model_checking", cov, ["TLC", "Mrasm.tla", "harness AST -> JSON projection"])
