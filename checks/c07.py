"""C07 - CPU reset, master reset and program load restore exactly the documented state."""
import json
import os
import random

import vlib
from checks import isa_common as ic

P1 = [251, 239, 64, 255, 252, 16, 97, 17, 22, 242, 31, 255, 241, 31, 128, 69, 32, 241]
P2 = [251, 200, 31, 240, 251, 133, 31, 242, 251, 1, 31, 249, 8, 32, 254]
P3 = [251, 239, 64, 251, 90, 31, 241, 251, 198, 31, 242, 251, 147, 31, 253, 251, 65, 31, 250, 251, 5, 31, 254, 40, 27, 32, 254, 69, 23]


def history(rng, n):
    ops = [{"op": "new", "cfg": {"inr": [rng.randrange(256) for _ in range(4)], "temp": rng.randrange(0, 5001), "j1": rng.random() < 0.5}}]
    # the constructors are entry points of "load" too: Machine::new(config) and Machine::new_with_program(config, program) are validated events
    ops.append(ic.new_checked(rng, rng.choice([None, P1, P3, ic.random_image(rng, True, 80)])))
    for _ in range(n):
        r = rng.random()
        if r < 0.02:
            ops.append(ic.new_checked(rng, rng.choice([None, P2, ic.random_image(rng, True, 239)[:240]])))
        elif r < 0.04:
            ops.append({"op": "load_raw", "image": rng.choice([P1, P2, [], ic.random_image(rng, False, 240)[:240], ic.random_image(rng, True, 17)])})
        elif r < 0.12:
            img = rng.choice([P1, P2, P3, ic.random_image(rng, True, 80)])
            ops.append({"op": "load", "image": img, "ss": rng.choice([-1, 0, 16, 32, 48, 64]), "ps": rng.choice([-2, -1, 255, len(img)])})
        elif r < 0.4:
            ops.append({"op": "edge", "n": rng.randrange(1, 50)})
        elif r < 0.47:
            ops.append({"op": "mode", "v": rng.choice(["Real", "Assembly"])})
            ops.append({"op": "key_clock", "n": rng.randrange(1, 8)})
        elif r < 0.55:
            ops.append({"op": "key_int"})
        elif r < 0.6:
            ops.append({"op": "continue"})
        elif r < 0.68:
            ops.append({"op": "set_input", "k": rng.randrange(4), "v": rng.randrange(256)})
        elif r < 0.8:
            ops.append(rng.choice([{"op": "set_temp", "x": rng.randrange(0, 5001)}, {"op": "set_ai1", "x": rng.randrange(0, 5001)},
                                   {"op": "set_j1", "v": rng.random() < 0.5}, {"op": "set_j2", "v": rng.random() < 0.5},
                                   {"op": "set_uio", "k": rng.randrange(1, 4), "v": rng.random() < 0.5}, {"op": "set_di1", "v": rng.randrange(256)}]))
        elif r < 0.9:
            ops.append({"op": "bus_write", "a": rng.choice([0xF0, 0xF1, 0xF2, 0xF2, 0xF3, 0xF9, 0xFA, 0xFB, 0xFC, 0xFD, 0xFE, 0xFF, rng.randrange(240),
                                                             0, 1, 14, 15, 17, 18, 19, 28, 29, 30, 0xEE, 0xEF, 0xEF]), "v": rng.randrange(256)})
        elif r < 0.93:
            ops.append({"op": rng.choice(["cpu_reset", "master_reset"])})
        elif r < 0.97:
            ops += ic.board_irq_ops(rng)
        # after every prefix: each kind of reset on a clone
        if rng.random() < 0.6:
            ops.append({"op": "probe", "kind": "cpu_reset"})
            ops.append({"op": "probe", "kind": "master_reset"})
            ops.append({"op": "probe", "kind": "load", "image": rng.choice([P1, P2]), "ss": rng.choice([-1, 32]), "ps": rng.choice([-2, -1, 255])})
    # follow-up program in lock step with a newly created machine
    ops.append({"op": "lockstep", "image": rng.choice([P1, ic.random_image(rng, True, 100)[:3] + P1[3:]]), "ss": 32, "ps": 255, "n": 150})
    ops.append({"op": "checkpoint"})
    return ops


def run(tier, seed, replay):
    v = vlib.Verdict("C07", tier, seed)
    vlib.build_harness()
    os.environ["VH_TRACE_LOG"] = "1"      # the harness formats every log record of the code under test (as `-vvvv` does)
    vlib.gen_rom()
    cfg = "MC_Reset_quick.cfg" if tier == "quick" else "MC_Reset_thorough.cfg"
    r = vlib.tlc(os.path.join(vlib.SPEC, "mc", "MC_Reset.tla"), os.path.join(vlib.SPEC, "mc", cfg), timeout=3000)
    for inv in r.violated:
        v.violation("reset:spec:" + inv, "Micro/Bus/Board.tla violate %s" % inv, {"tlc": r.out[r.out.find("Error: Invariant"):][:5000]})
    rng = random.Random(seed)
    nt, n = (8, 60) if tier == "quick" else (64, 120)
    traces = [vlib.run_scenario(history(rng, n), "c07-%d" % i)[0] for i in range(nt)]
    results = vlib.validate_traces(traces, cfg="TraceMachine")
    nev = ic.report_trace_results(v, traces, results, "resettrace", "reset / load history")
    cov = {
        "states": r.distinct, "transitions": r.generated, "traces_validated_against_impl": len(traces),
        "samples": [{"history_ops": history(random.Random(1), 6)[:8]}], "trace_events_validated": nev, "exhaustive": False,
        "rule": "TLC: all histories up to the configured depth over 20 actions (loads, edges, key interrupt, continue, inputs, board inputs, port "
                "writes); after every prefix the field-by-field statements for cpu reset / master reset / load, and a lock-step run against a fresh "
                "machine; on the real machine random histories with each reset applied to a clone after the prefixes (all fields incl. private ones "
                "compared with the specification), and a follow-up program in lock step with a newly created machine",
    }
    return v.finish("model_checking", cov, ["TLC", "verif hooks for private fields", "NOSET limits are inherited (the repository's own test requires it)"])
