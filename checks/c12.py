"""C12 - run/verify report exactly what the stepped machine does, including the exit status."""
import json
import os
import random
import re
import subprocess
from concurrent.futures import ThreadPoolExecutor

import vlib


def source_of(image):
    lines = ["#! mrasm", "*STACKSIZE 16"]
    for i in range(0, len(image), 8):
        lines.append("\t.DB " + ", ".join("0x%02X" % b for b in image[i:i + 8]))
    return "\n".join(lines) + "\n"


def spell(n, radix, rng=None):
    """a byte as the command line accepts it: decimal, 0x (either letter case), 0b - each also with leading zeros"""
    z = rng.choice(["", "", "0", "00"]) if rng else ""
    hx = ("%x" if not rng or rng.random() < 0.5 else "%X") % n
    return {10: z + "%d" % n, 16: "0x" + z + hx, 2: "0b" + z + bin(n)[2:]}[radix]


ANSI = re.compile(r"\x1b\[[0-9;]*m")


def cli(binary, args):
    env = dict(os.environ, NO_COLOR="1", CLICOLOR="0")
    p = subprocess.run([binary] + args, env=env, stdout=subprocess.PIPE, stderr=subprocess.PIPE, text=True, timeout=60)
    out = ANSI.sub("", p.stdout)
    res = {"rc": p.returncode, "stdout": out, "stderr": ANSI.sub("", p.stderr)[-400:]}
    m = re.search(r"Cycles:\s+(\d+)/(\d+)", out)
    if m:
        res["cycles"], res["budget"] = int(m.group(1)), int(m.group(2))
    m = re.search(r"State:\s+(\w+)", out)
    if m:
        res["state"] = {"Running": "Running", "Stopped": "Stopped", "Error": "ErrorStopped"}.get(m.group(1), m.group(1))
    m = re.search(r"FE:\s+(\d+)", out)
    if m:
        res["fe"] = int(m.group(1))
    m = re.search(r"FF:\s+(\d+)", out)
    if m:
        res["ff"] = int(m.group(1))
    return res


def run(tier, seed, replay):
    v = vlib.Verdict("C12", tier, seed)
    vlib.build_harness()
    vlib.gen_rom()
    binary = vlib.build_binary()
    r = vlib.tlc(os.path.join(vlib.SPEC, "mc", "MC_Runner.tla"), os.path.join(vlib.SPEC, "mc", "MC_Runner_%s.cfg" % tier), timeout=6000, xmx="24g")
    for inv in r.violated:
        v.violation("run:spec:" + inv, "Runner.tla violates %s" % inv, {"tlc": r.out[r.out.find("Error:"):][:4000]})
    cases = vlib.tlc_replay_lines(r.out)
    # the schedules are LISTS in the real interface: give them in arbitrary order and with duplicates (same set, same meaning)
    rng0 = random.Random(seed + 12)
    for c in cases:
        for key in ("ints", "resets"):
            if key in c and c[key]:
                lst = list(c[key])
                k = rng0.randrange(4)
                if k == 1:
                    lst = lst + [rng0.choice(lst)]
                elif k == 2:
                    lst = [lst[0]] + lst
                elif k == 3:
                    lst = lst + lst
                    rng0.shuffle(lst)
                else:
                    lst.reverse()
                c[key] = lst
        # cycles that are never reached (at or beyond the budget, up to the largest usize) do not change the meaning of a schedule
        for key in ("ints", "resets"):
            if key in c and rng0.random() < 0.5:
                far = [c["n"], c["n"] + 1, c["n"] + 1000, 2 ** 31 - 1, 2 ** 32 - 1, 2 ** 32, 2 ** 63 - 1, 2 ** 63, 2 ** 64 - 2, 2 ** 64 - 1]
                c[key] = list(c[key]) + rng0.sample(far, rng0.randrange(1, 3))
                rng0.shuffle(c[key])
        # long lists (dozens of entries: repeated cycles, never-reached cycles), again without changing the meaning
        if rng0.random() < 0.25 or (c.get("p") == 4 and set(c.get("ints", [])) & set(c.get("resets", []))):
            for key in ("ints", "resets"):
                if key in c:
                    base = list(c[key])
                    pad = [c["n"] + 1 + rng0.randrange(500) for _ in range(rng0.randrange(20, 45))] + [rng0.choice(base) for _ in range(12) if base]
                    c[key] = base + pad
                    rng0.shuffle(c[key])
    p = os.path.join(vlib.WORK, "runner_cases.ndjson")
    vlib.write_ndjson(p, cases)
    # (a) the library: RunnerConfig::run and RunExpectations::verify on every configuration
    res = vlib.vh_json(["runner-check", p], timeout=3000)
    seen = set()
    for f in res["first"]:
        key = "run:lib:p%s" % f["p"]
        if key in seen:
            continue
        seen.add(key)
        v.violation(key, "RunnerConfig::run / verify differs from Runner.tla for program %s budget %s interrupts %s resets %s inputs %s: %s"
                    % (f["p"], f["n"], f["ints"], f["resets"], f["inr"], f["diff"][:4]), f)
    # (b) the command-line tool on a sample: printed values and exit status, inputs in all three radices
    exps = [c for c in cases if c.get("kind") == "exps"][0]["exps"]
    runs = [c for c in cases if c.get("kind") != "exps"]
    rng = random.Random(seed)
    sample = rng.sample(runs, min(len(runs), 140 if tier == "quick" else 1200)) + [c for c in runs if c["p"] == 6 and c["bd"]["di1"] != 0][:40]
    d = os.path.join(vlib.WORK, "cli")
    os.makedirs(d, exist_ok=True)
    files = {}
    for c in runs:
        if c["p"] not in files:
            fp = os.path.join(d, "prog%d.asm" % c["p"])
            open(fp, "w").write(source_of(c["image"]))
            files[c["p"]] = fp
    bad_file = os.path.join(d, "unparsable.asm")
    open(bad_file, "w").write("#! mrasm\n\tFROBNICATE R0\n")

    def one(c):
        radix = rng.choice([10, 16, 2])
        k = rng.randrange(len(exps))
        e = exps[k]
        args = ["run", files[c["p"]], str(c["n"])]
        for t in c["ints"]:
            args += ["--interrupt", str(t)]
        for t in c["resets"]:
            args += ["--reset", str(t)]
        for name, val in zip(["--fc", "--fd", "--fe", "--ff"], c["inr"]):
            args += [name, spell(val, radix, rng)]
        b = c.get("bd")
        if b:
            args += ["--di1", spell(b["di1"], radix, rng), "--temp", "%.3f" % (b["temp"] / 1000.0), "--ai1", "%.3f" % (b["ai1"] / 1000.0), "--ai2", "%.3f" % (b["ai2"] / 1000.0)]
            for flag in ("j1", "j2", "uio1", "uio2", "uio3"):
                if b[flag]:
                    args.append("--" + flag)
        stated = e["st"] != "none" or e["fe"] >= 0 or e["ff"] >= 0
        if stated:
            args.append("verify")
            if e["st"] != "none":
                args += ["--state", {"Running": "running", "Stopped": "stopped", "ErrorStopped": "error"}[e["st"]]]
            if e["fe"] >= 0:
                args += ["--fe", spell(e["fe"], radix, rng)]
            if e["ff"] >= 0:
                args += ["--ff", spell(e["ff"], radix, rng)]
        out = cli(binary, args)
        want_rc = 0 if (not stated or c["ver"][k] == 0) else 1
        diffs = []
        if out["rc"] != want_rc:
            diffs.append("exit status: spec %d tool %d" % (want_rc, out["rc"]))
        for name, want in (("cycles", c["cycles"]), ("budget", c["n"]), ("state", c["st"]), ("fe", c["fe"]), ("ff", c["ff"])):
            if out.get(name) != want:
                diffs.append("%s: spec %s tool %s" % (name, want, out.get(name)))
        return (c, args, diffs, out)

    with ThreadPoolExecutor(max_workers=8) as ex:
        outs = list(ex.map(one, sample))
    ncli = len(outs)
    for c, args, diffs, out in outs:
        if diffs:
            v.violation("run:cli", "2a-emulator %s: %s" % (" ".join(args), diffs), {"args": args, "diffs": diffs, "stdout": out["stdout"][-600:], "stderr": out["stderr"]})
            break
    # voltages on the command line are decimal literals of any length: the stored value is the correctly rounded f32 (the expected bit pattern is
    # computed here with exact rational arithmetic); program 6 shows the comparator bits of the status register in FE
    from fractions import Fraction
    import struct

    def f32_of(fr):
        """correctly rounded (ties to even) f32 of a non-negative rational, as a float"""
        if fr == 0:
            return 0.0
        lo, hi = 0, 0x7F7FFFFF
        while lo < hi:                                   # largest bit pattern whose value is <= fr
            mid = (lo + hi + 1) // 2
            if Fraction(struct.unpack(">f", struct.pack(">I", mid))[0]) <= fr:
                lo = mid
            else:
                hi = mid - 1
        a = Fraction(struct.unpack(">f", struct.pack(">I", lo))[0])
        b = Fraction(struct.unpack(">f", struct.pack(">I", lo + 1))[0])
        pick = lo if (fr - a < b - fr or (fr - a == b - fr and lo % 2 == 0)) else lo + 1
        return struct.unpack(">f", struct.pack(">I", pick))[0]

    def dec(fr, digits=120):
        n = int(fr * 10 ** digits)
        s = str(n).rjust(digits + 1, "0")
        return s[:-digits] + "." + s[-digits:]
    tiny = Fraction(1, 2 ** 150)
    lits = [tiny + Fraction(1, 10 ** 100), tiny, tiny - Fraction(1, 10 ** 100), Fraction(1, 2 ** 149), Fraction(1, 2 ** 151), Fraction(3, 2 ** 151),
            Fraction(1, 10 ** 40), Fraction(1, 10 ** 46), Fraction(0)]
    if 6 in files:
        base = cli(binary, ["run", files[6], "40"])
        for fr in lits:
            for flag, bit in (("--ai1", 8), ("--ai2", 16), ("--temp", 16)):
                out = cli(binary, ["run", files[6], "40", flag, dec(fr)])
                ncli += 1
                want = (base.get("fe", 0) | bit) if f32_of(fr) > 0.0 else base.get("fe", 0)
                if out.get("fe") != want or out["rc"] != 0:
                    v.violation("run:cli:voltage", "2a-emulator run ... %s %s: the status register shows %s, the correctly rounded f32 of the literal (%r) makes it %s"
                                % (flag, dec(fr)[:60] + "...", out.get("fe"), f32_of(fr), want), {"flag": flag, "literal": dec(fr), "out": out})
                    break
    # unreadable / unparsable program files and the verify subcommand
    for args, want in ((["run", os.path.join(d, "does-not-exist.asm"), "10"], 1), (["run", bad_file, "10"], 1),
                       (["verify", bad_file], 1), (["verify", os.path.join(d, "does-not-exist.asm")], 1), (["verify", files[1]], 0)):
        out = cli(binary, args)
        ncli += 1
        if out["rc"] != want:
            v.violation("run:cli:status", "2a-emulator %s exited with %d, expected %d" % (" ".join(args), out["rc"], want), {"args": args, "out": out})
    cov = {
        "states": r.distinct, "transitions": r.generated, "traces_validated_against_impl": res["cases"] + ncli,
        "samples": [{k: runs[len(runs) // 3][k] for k in ("p", "n", "ints", "resets", "inr", "cycles", "st", "fe", "ff")}],
        "configurations_replayed_in_library": res["cases"], "verify_outcomes_compared": res["verifications"], "cli_invocations": ncli, "exhaustive": False,
        "rule": "TLC runs Runner.tla (composed with Machine/Micro.tla) on 6 programs x budgets (incl. 0) x interrupt / reset cycle sets (cycle 0, N-1, N, "
                "beyond the end) x 2 input configurations (+ 3 board configurations given through --di1/--temp/--ai1/--ai2/--j1/--j2/--uio1-3 for the program that copies the board's input port and status register to the outputs), checks CyclesOk and the consistency of the verification rule over 64 expectation sets, and prints "
                "final machine, cycle count and all 64 outcomes; the harness runs the real RunnerConfig::run + verify on every configuration (full machine "
                "projection incl. private fields) and the real command-line tool on a sample with inputs in all three radices, comparing printed "
                "State/FE/FF/Cycles and the exit status, plus unreadable / unparsable files",
    }
    return v.finish("model_checking", cov, ["TLC", "programs given to the tool as .DB lines (no instruction encoder involved)",
                                            "which mismatch verify reports first is informational; only success/failure is compared"])
