"""C08 - the ALU computes its documented function and flags for every input."""
import json
import os

import vlib

NAMES = ["ADDH", "A", "NOR", "ZERO", "ADD", "ADDS", "ADC", "ADCS", "LSR", "RR", "RRC", "ASR", "B", "SETC", "BH", "INVC"]


def run(tier, seed, replay):
    v = vlib.Verdict("C08", tier, seed)
    vlib.build_harness()
    ref = os.path.join(vlib.WORK, "alu_ref.json")
    if os.path.exists(ref):
        os.remove(ref)
    r = vlib.tlc(os.path.join(vlib.SPEC, "mc", "MC_Alu.tla"), os.path.join(vlib.SPEC, "mc", "MC_Alu.cfg"),
                 env={"OUT": ref}, timeout=900)
    if r.violated:
        # the specification's own table contradicts the facts named by the property: a spec bug
        raise vlib.ToolError("Alu.tla violates its own facts: %s\n%s" % (r.violated, r.out[-2000:]))
    res = vlib.vh_json(["alu-check", ref])
    for sel, n in enumerate(res["per_sel"]):
        if n:
            ex = [f for f in res["first"] if f["sel"] == sel][:3]
            v.violation("alu:" + NAMES[sel], "%d of 131072 points of ALU function %s differ from Alu.tla, e.g. %s"
                        % (n, NAMES[sel], json.dumps(ex)), {"function": NAMES[sel], "examples": ex,
                                                            "cmd": "./check C08"})
    if res["codes"] != list(range(16)):
        bad = [(NAMES[i], c) for i, c in enumerate(res["codes"]) if c != i]
        v.violation("alu:select-code", "the 4-bit select codes do not denote the documented functions: %s (function, code it is reached by)" % bad, {"codes": res["codes"]})
    if res["lines_bad"]:
        v.violation("alu:lines", "the ALU's carry / zero / negative outputs do not reach the machine's signal lines unchanged: %s" % json.dumps(res["lines_bad"][:2]), res["lines_bad"])
    table = json.load(open(ref))
    samples = [{"sel": NAMES[s], "a": a, "b": b, "cin": c, "spec_packed(out+256c+512z+1024n)": table[s][a * 512 + b * 2 + c]}
               for (s, a, b, c) in [(0, 200, 100, 0), (0, 1, 1, 1), (5, 3, 252, 0), (7, 0, 255, 1), (10, 129, 0, 1), (15, 0, 77, 1)]]
    cov = {
        "states": r.distinct, "transitions": r.generated,
        "traces_validated_against_impl": res["points"],
        "samples": samples,
        "exhaustive": True,
        "rule": "TLC: BFS over (function, A) = 4096 states, invariant AluFacts over all 512 (B, carry-in) per state "
                "= 2 097 152 points; reference table serialised by TLC and compared with AluOutput::from_input on "
                "every point (traces_validated_against_impl counts compared points); every point is evaluated in six call orders "
                "(ascending, descending, after the swapped operands, after the flipped carry-in, after every other function, random) "
                "so that a result depending on earlier calls is seen",
        "points_compared": res["points"], "alu_calls": res["calls"], "mismatching_points": res["mismatches"],
    }
    return v.finish("model_checking", cov, ["TLC/SANY, CommunityModules Bitwise", "harness packing of AluOutput getters"])
