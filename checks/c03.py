"""C03 - the parser accepts exactly the mrasm language and builds the right AST, no crash."""
import random

import vlib
from checks import asm_common as ac
from checks import textgen as tg


def run(tier, seed, replay):
    v = vlib.Verdict("C03", tier, seed)
    vlib.build_harness()
    rng = random.Random(seed)
    # the linear-time scanning operators of Mrasm.tla equal their recursive originals on every short sequence (a specification self-check)
    import os
    eq = vlib.tlc(os.path.join(vlib.SPEC, "mc", "MC_MrasmEquiv.tla"), os.path.join(vlib.SPEC, "mc", "MC_MrasmEquiv%s.cfg" % ("_quick" if tier == "quick" else "")),
                  timeout=1800, name="mrasm-equiv")
    if not eq.ok:
        raise vlib.ToolError("Mrasm.tla: the rewritten scanning operators differ from their recursive definitions (specification bug):\n" + eq.out[-3000:])
    n = 1500 if tier == "quick" else 12000
    texts = [tg.program(rng) for _ in range(n)]
    texts += tg.token_mutations(rng)
    texts += tg.edge_texts()
    texts += tg.odd_space_texts()
    texts += tg.numeric_programs()
    texts += tg.long_texts(rng, tier)
    texts += tg.repo_corpus()
    texts += [tg.mutate_chars(rng, tg.program(rng, nlines=rng.randrange(1, 5)), rng.choice([1, 1, 1, 2, 3])) for _ in range(n)]
    texts += tg.unicode_strings(rng, n // 3)
    path, summ = ac.parse_texts(texts, "c03", "parse")
    validated, rejected, outs = ac.judge(path, "TraceParse", "TraceParse")
    seen = set()
    for rec in rejected:
        if rec.get("v") == "panic":
            key = "parse:panic"
            what = "the parser panicked: %s on %r" % (rec.get("msg"), ac.text_of(rec)[:200])
        else:
            key = "parse:%s-vs-%s" % (rec.get("_spec_verdict"), rec.get("v"))
            what = "Mrasm.tla says %s, the real parser says %s (%s) for %r" % (rec.get("_spec_verdict"), rec.get("v"), rec.get("why"), ac.text_of(rec)[:300])
            if rec.get("_spec_verdict") == "accept" and rec.get("v") == "accept":
                key = "parse:ast"
                what = "accepted by both, but the AST differs from Mrasm!ParseText for %r" % ac.text_of(rec)[:300]
        if key in seen:
            continue
        seen.add(key)
        v.violation(key, what, {"text": ac.text_of(rec), "record": {k: rec[k] for k in rec if k != "t"}})
    cov = {
        "states": validated + 1 + eq.distinct, "transitions": validated + eq.generated, "spec_selfcheck_sequences": eq.distinct, "traces_validated_against_impl": validated,
        "samples": [{"text": texts[0]}, {"text": texts[n + 5]}, {"text": texts[-1]}],
        "texts": len(texts), "parser_panics": summ["panics"], "exhaustive": False,
        "evaluations": len(texts), "distinct_nontrivial": len(set(texts)),
        "rule": "texts: grammar-derived programs (every instruction form, numeric base, boundary value, spacing / case variant), hand-picked token "
                "mutations (255/256, 65535/65536, 8/9 and 16/17 binary digits, separators, operand kinds, header variants, 40/41 labels, undefined and "
                "mixed-case references), random character mutations, arbitrary Unicode strings; each parsed by the real parser under catch_unwind and "
                "judged by TLC with Mrasm!ParseText (verdict, error class, AST line by line); unspecified zones: no-crash only",
    }
    return v.finish("model_checking", cov, ["TLC", "Mrasm.tla as the reading of the documented language (DESIGN Appendix C) incl. its list of unspecified zones",
                                            "harness AST -> JSON projection"])
