"""C17 - the interactive session survives any key input; commands have the documented effect."""
import json
import os
import random

import vlib
from checks import tui_common as tc


def spell(rng, v):
    r = rng.randrange(3)
    z = "0" * rng.choice([0, 0, 1, 2])
    return z + str(v) if r == 0 else ("0x" + z + ("%x" % v if rng.random() < 0.5 else "%X" % v)) if r == 1 else "0b" + z + bin(v)[2:]


def case(rng, s):
    return "".join(c.upper() if rng.random() < 0.5 else c.lower() for c in s)


def bl(rng, opt=True):
    return rng.choice(["", " ", "  ", "\t"] if opt else [" ", "  ", "\t", " \t"])


def command_lines(rng, n):
    """specified command lines (valid and invalid) with spelling variants"""
    out = []
    for _ in range(n):
        k = rng.randrange(14)
        v = rng.choice([0, 1, 9, 10, 99, 100, 127, 128, 254, 255, 256, 257, 300, 511, 512, 1000, 65535, rng.randrange(256)])
        pre, post = bl(rng), bl(rng)
        if k == 0:
            line = rng.choice(["", case(rng, "set") + bl(rng, False)]) + case(rng, rng.choice(["FC", "FD", "FE", "FF"])) + bl(rng) + "=" + bl(rng) + spell(rng, v)
        elif k == 1:
            line = case(rng, "set") + bl(rng, False) + case(rng, "IRG") + bl(rng) + "=" + bl(rng) + spell(rng, v)
        elif k == 2:
            f = rng.choice(["0", "1", "2.5", "5", "5.001", "4.999", "0.001", "12", "3.30", "0.5", "99.125", "2.551"])
            line = case(rng, "set") + bl(rng, False) + case(rng, rng.choice(["TEMP", "I1", "I2"])) + bl(rng) + "=" + bl(rng) + f
        elif k == 3:
            line = case(rng, rng.choice(["set", "unset"])) + bl(rng, False) + case(rng, rng.choice(["J1", "J2", "UIO1", "UIO2", "UIO3"]))
        elif k == 4:
            line = case(rng, "show") + bl(rng, False) + case(rng, rng.choice(["register", "memory"]))
        elif k == 5:
            line = case(rng, "next") + rng.choice(["", bl(rng, False) + str(rng.choice([0, 1, 2, 5, 17]))])
        elif k == 6:
            line = case(rng, "load") + " /nonexistent/dir/prog%d.asm" % rng.randrange(100)
        elif k == 7:   # trailing garbage / malformed
            line = rng.choice(["FC = 0x100", "FC = 256", "FC = 0b100000000", "set J1 = false", "set J1 extra", "unset", "set", "FC", "FC =", "FC = ", "= 5", "FC == 5",
                               "setFC = 1", "set FC 1", "show", "show registers", "show mem", "nextx", "next 5 6", "next -1", "quitx", "quit now", "exit 0", "load",
                               "loadx", "set IRG = 256", "set TEMP =", "set I3 = 1", "set UIO4", "set UIO0", "unset FC", "unset J1 = 1", "FG = 1", "FC = 1 2",
                               "set  fc=007", "FC=0x0ff", "fc=0b0011", "SET\tFF\t=\t255", "  quit  ", "EXIT", "Set J2  ", "ünï = 1", "FC = ①", "set temp = 1.5.5"])
        else:
            line = rng.choice(["hello", "x", "123", "ls", "set", "F", "FC=1", "FD=2", "FE=3", "FF=4"])
        out.append(pre + line + (post if "load" not in line.lower()[:6] else ""))
    return out


def random_stream(rng, n):
    keys = []
    alpha = list("lsFCDEf =0123456789xbXB.quitnexshowad/") + ["ä", "€", "😀", "́", "中", "\t"]
    for _ in range(n):
        r = rng.random()
        if r < 0.5:
            keys.append(("char", ord(rng.choice(alpha))))
        elif r < 0.95:
            keys.append(rng.choice(["enter", "tab", "backtab", "left", "right", "up", "down", "home", "end", "backspace", "delete", "tab", "left"]))
        else:
            keys.append(("ctrl", ord(rng.choice("awerlx"))))
    return keys


def run(tier, seed, replay):
    v = vlib.Verdict("C17", tier, seed)
    vlib.build_harness()
    vlib.gen_rom()
    vlib.build_binary()
    rng = random.Random(seed)
    # (1) TLC: all key sequences up to K on Tui.tla
    K = 3 if tier == "quick" else 4
    r = vlib.tlc(os.path.join(vlib.SPEC, "mc", "MC_Tui.tla"), os.path.join(vlib.SPEC, "mc", "MC_Tui_%d.cfg" % K), timeout=6000, xmx="24g")
    for inv in r.violated:
        v.violation("tui:spec:" + inv, "Tui.tla violates %s" % inv, {"tlc": r.out[r.out.find("Error:"):][:3000]})
    beh = vlib.tlc_replay_lines(r.out)
    # (2) S->I: type every behaviour into the real session, compare the editor after the last key, no panic anywhere
    # behaviours with the same key sequence are alternatives (BackTab / completion are nondeterministic in the specification)
    groups = {}
    for b in beh:
        groups.setdefault(json.dumps(b["keys"]), []).append(b)
    script = []
    ends = []
    glist = list(groups.values())
    if tier == "thorough" and len(glist) > 60000:       # sample whole groups: alternatives of one key sequence stay together
        short = [g for g in glist if len(g[0]["keys"]) < K]
        glist = short + rng.sample([g for g in glist if len(g[0]["keys"]) == K], 50000)
    for g in glist:
        script.append("new")
        for k in g[0]["keys"]:
            script.append("char %d" % k["c"] if k["k"] == "char" else k["k"])
        ends.append(len(script))
    recs, proc = tc.run_script(script, "c17-mc")
    if len(recs) != len(script):
        v.violation("tui:hook", "the scripted session ended early (%d of %d lines answered): %s" % (len(recs), len(script), proc.stderr[-300:]), {})
    nbeh = 0
    seen = set()
    for rec in recs:
        for kind in ("key_panic", "draw_panic"):
            if rec[kind] is not None:
                key = "tui:%s" % kind
                if key not in seen:
                    seen.add(key)
                    i = rec["line"] - 1
                    j = i
                    while j >= 0 and script[j] != "new":
                        j -= 1
                    v.violation(key, "panic (%s) after keys %s" % (rec[kind][:150], script[j + 1:i + 1]), {"keys": script[j + 1:i + 1], "panic": rec[kind]})
    for g, e in zip(glist, ends):
        if e - 1 >= len(recs):
            break
        rec = recs[e - 1]
        nbeh += 1
        if rec["key_panic"] is not None:
            continue
        ed = rec["ed"]
        got = {"text": ed["text"], "cursor": ed["cursor"], "hist": ed["hist"], "hidx": ed["hidx"], "comps": ed["comps"] or [], "cidx": max(ed["cidx"], 0)}
        gnotif = "none" if rec["notif"] is None else ("invalid" if rec["notif"].startswith("Invalid input") else "other")
        if not any(got == b["ed"] and gnotif == b["notif"] for b in g):
            if "tui:editor" not in seen:
                seen.add("tui:editor")
                b = g[0]
                v.violation("tui:editor", "after keys %s the real editor is %s / notification %s, Tui.tla allows %s"
                            % ([k["k"] + (":%d" % k["c"] if k["k"] == "char" else "") for k in b["keys"]], got, gnotif, [(x["ed"], x["notif"]) for x in g][:3]),
                            {"keys": b["keys"], "real": got, "spec": [x["ed"] for x in g]})
    # (3) I->S: command lines with their effect on the machine, editing in between, validated by TraceTui
    traces = []
    nt, ncmd = (4, 60) if tier == "quick" else (24, 150)
    # readable files with valid programs: `load PATH` must have exactly the effect parse -> assemble -> load (TraceTui!LoadedFrom)
    ldir = os.path.join(vlib.WORK, "tui", "c17-load")
    os.makedirs(ldir, exist_ok=True)
    files = {}
    for name, text in (("a.asm", "#! mrasm\n LD R0, 7\nloop:\n INC R0\n ST (0xFF), R0\n JR loop\n"),
                       ("b-größe.asm", "#! mrasm ; sizes\n*STACKSIZE 32\n*PROGRAMSIZE 40\n.ORG 4\nstart:\n LDSP 0xEF\n CALL fn\n STOP\nfn:\n MOV (0xFE), 0x5A\n RET\n.DB 1, 2, 0xb5\n.DW 0x1234\n"),
                       ("c.asm", "#! mrasm\r\n*STACKSIZE NOSET\r\n*PROGRAMSIZE noset\r\n.EQU k 3\r\n LD R1, k\r\n DEC R1\r\n JZC 0\r\n" if False else
                                 "#! mrasm\r\n*STACKSIZE NOSET\r\n*PROGRAMSIZE noset\r\n.EQU k 3\r\n LD R1, k\r\nl:\r\n DEC R1\r\n JZC l\r\n STOP\r\n"),
                       ("d.asm", "#! mrasm\n*PROGRAMSIZE AUTO\n*STACKSIZE 0\n NOP\n EI\n STOP\n")):
        fp = os.path.join(ldir, name)
        with open(fp, "w", newline="") as fh:
            fh.write(text)
        files[fp] = text
    for i in range(nt):
        keys = []
        for line in command_lines(rng, ncmd):
            if rng.random() < 0.12:
                fp = rng.choice(sorted(files))
                keys += tc.type_line(bl(rng) + case(rng, "load") + bl(rng, False) + fp)
                keys += rng.choice([[], ["enter"] * 3, [("ctrl", ord("w")), "enter", "enter"], tc.type_line("next 7")])
            keys += tc.type_line(line)
            if rng.random() < 0.3:
                keys += rng.choice([["up", "down"], ["up", "home", "delete", "end", "backspace", "enter"], [("ctrl", ord("w"))], [("ctrl", ord("e"))],
                                    [("ctrl", ord("r"))], [("ctrl", ord("l"))], [("ctrl", ord("a"))], ["enter"], [("char", ord("s")), "tab", "backtab", "enter"],
                                    [("char", 70), ("char", 68), "tab", ("char", 55), "enter"]])
        recs2, _ = tc.run_script(["new"] + [tc.key_line(k) for k in keys], "c17-cmd%d" % i)
        evs = [{"seq": 0, "op": "new"}] + tc.to_events(recs2[1:], files=files)
        tp = os.path.join(vlib.WORK, "tui", "c17-cmd%d.ndjson" % i)
        vlib.write_ndjson(tp, evs)
        traces.append(tp)
    # a long session: more than a thousand submitted lines (history growth, navigation deep into the history, the line executed is the line typed)
    keys = []
    nlong = 1100 if tier == "quick" else 2600
    for i in range(nlong):
        keys += tc.type_line(["FC=%d", "fd=0x%x", "FE=0b%s", "ff=%d", "x%d", "next %d"][i % 6] % ((bin(i % 256)[2:],) if i % 6 == 2 else (i % 256 if i % 6 != 5 else i % 3,)))
    keys += ["up"] * 7 + ["down"] * 3 + ["enter"] + ["up"] * 12 + ["home", ("char", 32), "enter", "up", "enter"]
    recs2, _ = tc.run_script(["new"] + [tc.key_line(k) for k in keys], "c17-long")
    evs = [{"seq": 0, "op": "new"}] + tc.to_events(recs2[1:], hist_tail=4)
    tp = os.path.join(vlib.WORK, "tui", "c17-long.ndjson")
    vlib.write_ndjson(tp, evs)
    traces.append(tp)
    # `next N` for N in the millions is N clock keys - far beyond what TLC can step; here the oracle is the library itself (N calls of
    # trigger_key_clock on a machine loaded with the same program), whose single step is what every other check validates
    big_n = 20000000 + 1 + rng.randrange(5000) if tier == "quick" else 70000000 + 1 + rng.randrange(5000)
    afile = sorted(files)[0]
    recs4, _ = tc.run_script(["new"] + [tc.key_line(k) for k in tc.type_line("load " + afile) + tc.type_line("next %d" % big_n)], "c17-bignext", timeout=3000)
    btp, _ = vlib.run_scenario([{"op": "new"}, {"op": "load_asm", "src": files[afile]}, {"op": "clock_bulk", "n": big_n}], "c17-bignext")
    bulk = [e for e in vlib.read_ndjson(btp) if e["op"] == "bulk"][-1]["s"]
    got = recs4[-1]["m"] if recs4 and recs4[-1].get("key_panic") is None else None
    want = {"regs": bulk["regs"], "st": bulk["st"], "maddr": bulk["maddr"], "ir": bulk["ir"], "outr": bulk["outr"], "ramsum": bulk["ramsum"], "misr": bulk["misr"]}
    if got is None or any(got[k] != want[k] for k in want):
        v.violation("tui:next:big", "`next %d` does not leave the machine where %d clock keys leave it: session %s, library %s"
                    % (big_n, big_n, {k: got[k] for k in want} if got else (recs4[-1].get("key_panic") if recs4 else None), want), {"n": big_n, "file": afile})
    # voltages typed with many digits (beyond the three decimals Tui.tla specifies): the stored value is the correctly rounded f32 of the
    # literal - expected bit pattern by exact rational arithmetic; literals sit at the f32 rounding boundaries (double rounding through f64 fails)
    from fractions import Fraction
    import struct

    def f32_bits(fr):
        lo, hi = 0, 0x7F7FFFFF
        while lo < hi:
            mid = (lo + hi + 1) // 2
            if Fraction(struct.unpack(">f", struct.pack(">I", mid))[0]) <= fr:
                lo = mid
            else:
                hi = mid - 1
        a = Fraction(struct.unpack(">f", struct.pack(">I", lo))[0])
        b = Fraction(struct.unpack(">f", struct.pack(">I", lo + 1))[0])
        return lo if (fr - a < b - fr or (fr - a == b - fr and lo % 2 == 0)) else lo + 1

    def dec(fr, digits=110):
        n = int(fr * 10 ** digits)
        s = str(n).rjust(digits + 1, "0")
        return s[:-digits] + "." + s[-digits:]
    ulp25 = Fraction(1, 2 ** 22)                      # spacing of f32 around 2.5
    eps = Fraction(1, 10 ** 100)
    lits = [Fraction(5, 2) + ulp25 / 2 + eps, Fraction(5, 2) + ulp25 / 2, Fraction(5, 2) + ulp25 / 2 - eps, Fraction(5, 2) + 3 * ulp25 / 2 + eps,
            Fraction(1, 2 ** 150) + eps, Fraction(1, 2 ** 150), Fraction(1, 10) , Fraction(1, 3).limit_denominator(10 ** 30)]
    vkeys = []
    for fr in lits:
        for name in ("TEMP", "I1", "I2"):
            vkeys += tc.type_line("set %s = %s" % (name, dec(fr)))
    recs5, _ = tc.run_script(["new"] + [tc.key_line(k) for k in vkeys], "c17-volts")
    enters = [r for r in recs5 if r["op"] == "enter"]
    vi = 0
    for fr in lits:
        for name, field in (("TEMP", "temp_bits"), ("I1", "ai1_bits"), ("I2", "ai2_bits")):
            rec = enters[vi] if vi < len(enters) else None
            vi += 1
            want = f32_bits(Fraction(int(fr * 10 ** 110), 10 ** 110))
            if rec is None or rec["key_panic"] is not None or rec["notif"] is not None or rec["m"][field] != want:
                v.violation("tui:voltage", "`set %s = %s...` stores the f32 bit pattern %s, the correctly rounded value of the literal is %s"
                            % (name, dec(fr)[:40], rec["m"][field] if rec else None, want), {"name": name, "literal": dec(fr)})
                break
        else:
            continue
        break
    results = vlib.validate_traces(traces, cfg="TraceTui")
    nev = 0
    for tp, tr in zip(traces, results):
        nev += tr["states"]
        if tr["violated"]:
            v.violation("tui:trace-inv", "editor invariant violated on a validated session", {"trace": tp})
        elif not tr["accepted"]:
            evs = vlib.read_ndjson(tp)
            ev = evs[tr["reached"] - 1] if tr["reached"] and tr["reached"] <= len(evs) else {}
            # the line being submitted, for the report
            j = tr["reached"] - 2
            line = []
            while j >= 0 and evs[j].get("op") == "char":
                line.insert(0, chr(evs[j]["c"]))
                j -= 1
            key = "tui:trace:panic" if ev.get("op") == "panic" else "tui:trace:%s" % ev.get("op")
            v.violation(key, "session trace rejected by Tui.tla at event %s (%s) after typing %r: %s" % (tr["reached"], ev.get("op"), "".join(line), json.dumps(ev)[:400]),
                        {"trace": tp, "event": ev, "typed": "".join(line)})
    # (4) robustness: long random key streams with multi-byte characters at several sizes, and all terminal sizes for representative states
    nstream, slen = (6, 400) if tier == "quick" else (60, 1500)
    script = []
    for i in range(nstream):
        script += ["new", "size %d %d" % rng.choice([(100, 40), (76, 28), (80, 24), (20, 10), (200, 60), (75, 27), (3, 3), (1, 1)])]
        script += [tc.key_line(k) for k in random_stream(rng, slen)]
    # deterministic completion probes: every completion path with multi-byte text and the cursor at every position
    for text in ["load ", "load ä", "load uä", "load €€x", "load /tmp/ä", "load 😀", "lä", "sä€", "Fä", "FCä", "F😀", "FD", "FEx", "FFFFF", "load", "x"]:
        for back in range(0, len(text) + 1):
            for key in ("tab", "backtab"):
                script += ["new"] + [tc.key_line(("char", ord(c))) for c in text] + ["left"] * back + [key, key, "char 120", key, "enter", "enter"]
    # a line longer than the input field with the cursor walked across EVERY position, drawn after each key at three sizes
    for size, text in (((76, 28), "abcdefghij" * 12), ((100, 40), "x ä€ y😀 " * 20), ((80, 24), "0123456789" * 9)):
        script += ["new", "size %d %d" % size] + [tc.key_line(("char", ord(c))) for c in text] + ["left"] * (len(text) + 2) + ["right"] * 30 + ["home", "right", "right", "delete", "end"]
    # successful `load`s (effect unspecified here, C06/C02 own it): the program pane shows file name and listing - every size must draw
    fdir = os.path.join(vlib.WORK, "tui", "c17-files")
    os.makedirs(fdir, exist_ok=True)
    prog = "#! mrasm\n.ORG 4\nloop:\n  LDSP 0xEF ; comment ä€😀 with a rather long tail that will not fit into the program pane\n INC R0\n ST (0xFF), R0\n JR loop\n"
    lsw = (110, 34) if tier == "quick" else (200, 60)
    loads = []
    for name in ["p", "blatt-3-zähler-mit-überlauf-v2", "€" * 30, "a-very-long-program-file-name-that-does-not-fit-into-the-side-bar", "😀", "ä" * 17 + "b", "x" * 11 + "é" * 9]:
        fp = os.path.join(fdir, name + ".asm")
        with open(fp, "w") as f:
            f.write(prog)
        script += ["new", "size 120 45"] + [tc.key_line(k) for k in tc.type_line("load " + fp)] + ["draw", "enter", "enter", "ctrl 119", "enter", "sweep %d %d" % lsw]
        loads.append(len(script) - 6)
    sw = (120, 60) if tier == "quick" else (250, 100)
    for prep in (["new"], ["new"] + [tc.key_line(k) for k in [("char", ord(c)) for c in "ääää€€€€😀😀 long text " * 6] + ["left"] * 7],
                 ["new"] + [tc.key_line(k) for k in tc.type_line("bogus command")], ["new"] + [tc.key_line(k) for k in tc.type_line("show memory")]):
        script += prep + ["sweep %d %d" % sw]
    recs3, proc3 = tc.run_script(script, "c17-robust", timeout=6000)
    if len(recs3) != len(script):
        v.violation("tui:hook", "the robustness session ended early: %s" % proc3.stderr[-300:], {})
    sweeps = 0
    for li in loads:
        if li < len(recs3) and recs3[li]["key_panic"] is None and (recs3[li]["notif"] is not None or recs3[li]["m"]["ramsum"] == 0):
            v.violation("tui:load", "`load PATH` of a readable, valid program file did not load it: notification %r" % (recs3[li]["notif"] or "")[:200],
                        {"script": os.path.join(vlib.WORK, "tui", "c17-robust.script"), "line": recs3[li]["line"]})
            break
    for rec in recs3:
        for kind in ("key_panic", "draw_panic"):
            if rec[kind] is not None and ("tui:robust:" + kind) not in seen:
                seen.add("tui:robust:" + kind)
                v.violation("tui:robust:" + kind, "panic (%s) in a random key stream at script line %d (size %s)" % (rec[kind][:150], rec["line"], rec["size"]),
                            {"script": os.path.join(vlib.WORK, "tui", "c17-robust.script"), "line": rec["line"], "panic": rec[kind]})
        if "sweep" in rec:
            sweeps += rec["sweep"]
            if rec["sweep_panics"] and "tui:sweep" not in seen:
                seen.add("tui:sweep")
                v.violation("tui:sweep", "drawing panics at terminal sizes %s" % rec["sweep_panics"][:3], {"panics": rec["sweep_panics"]})
    cov = {
        "states": r.distinct, "transitions": r.generated, "traces_validated_against_impl": nbeh + len(traces),
        "samples": [{"keys": beh[len(beh) // 2]["keys"], "editor": beh[len(beh) // 2]["ed"]}, {"command_lines": command_lines(random.Random(3), 5)}],
        "behaviours_typed_into_real_session": nbeh, "session_events_validated": nev, "random_stream_keys": nstream * slen, "sizes_swept": sweeps,
        "exhaustive": False,
        "rule": "TLC: all key sequences up to length %d over 21 keys (completion letters, blank, digit, '=', 2/3/4-byte characters, Enter, Tab, BackTab, arrows, "
                "Home/End, Backspace/Delete) with EditorOk; each typed into the real session (real handle_event, real Interface drawn after every key) and the "
                "editor state compared; command lines (all commands, three radices, case / spacing variants, values around 255/256, trailing garbage, "
                "malformed lines) submitted to the real session and validated by TraceTui incl. the machine effect; random key streams at 8 terminal sizes and "
                "one session of more than 1000 submitted lines (history); a sweep over all sizes for 4 representative states and for 7 sessions with a loaded program file (short / long / multi-byte names)" % K,
    }
    return v.finish("model_checking", cov, ["TLC", "Tui.tla as the reading of the documented commands (DESIGN Appendix D); float spellings beyond digits[.digits<=3], "
                                            "0X/0B are unspecified (no-crash only); successful `load` is specified through Mrasm.tla + Asm.tla + Machine!LoadF for files written by the check", "TestBackend instead of a real terminal; the binary is the debug build (overflow checks on)"])
