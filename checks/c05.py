"""C05 - stack/PC supervision and the halt states are exact and absorbing."""
import json
import os
import random

import vlib
from checks import isa_common as ic

FOLLOW = {1: [16, 16, 21, 21, 1], 2: [40, 6, 1, 23], 3: [20, 1], 4: [24, 28, 1], 5: [40, 3], 6: [23]}


def post_halt(rng):
    ops = [{"op": "edge", "n": 3}]
    for _ in range(rng.randrange(2, 6)):
        r = rng.random()
        if r < 0.3:
            ops.append({"op": "key_int"})
        elif r < 0.5:
            ops.append({"op": "set_input", "k": rng.randrange(4), "v": rng.randrange(256)})
        elif r < 0.6:
            ops.append({"op": "set_j1", "v": rng.random() < 0.5})
        elif r < 0.7:
            ops.append({"op": "set_temp", "x": rng.randrange(0, 5001)})
        ops.append({"op": "edge", "n": rng.randrange(1, 4)})
    ops.append({"op": "continue"})
    ops.append({"op": "edge", "n": 14})
    return ops


def trace_ops(rng, tier):
    ops = [{"op": "new"}]
    edges = {16: [0xD0, 0xD1, 0xDE, 0xDF], 32: [0xC0, 0xC1, 0xCE, 0xCF], 48: [0xB0, 0xB1, 0xBE, 0xBF], 64: [0xA0, 0xA1, 0xAE, 0xAF], 0: [0x00, 0x01]}
    for ss, vs in edges.items():
        for v in vs + [0xEF, 0xF0, 0xFF, rng.randrange(256)]:
            for f in ([1, 2, 3] if tier == "quick" else [1, 2, 3, 4, 5, 6]):
                ops.append({"op": "load", "image": [251, v, 64] + FOLLOW[f], "ss": ss, "ps": 255})
                ops.append({"op": "edge", "n": 60 if f != 5 else 400})
                ops += post_halt(rng)
    for ps, t in [(20, 20), (20, 21), (39, 39), (39, 38), (40, 39), (2, 3), (255, 200), (0, 0)]:
        ops.append({"op": "load", "image": [251, t, 19] + [2] * 36 + [1], "ss": 16, "ps": ps})
        ops.append({"op": "edge", "n": 130})
        ops += post_halt(rng)
    # ... and with CODE behind the limit (after a STOP on the last allowed address the continue key must not let it run), deterministic keys
    for ps, t in [(39, 39), (38, 39), (40, 39), (39, 30), (41, 39), (39, 37)]:
        for keys in (["continue"], ["continue", "continue"], ["key_int", "continue"], ["cpu_reset"], ["continue", "key_int"]):
            ops.append({"op": "load", "image": [251, t, 19] + [2] * 36 + [1, 68, 240, 31, 255, 68, 2, 1, 32, 254], "ss": 16, "ps": ps})
            ops.append({"op": "edge", "n": 60})
            for k in keys:
                ops.append({"op": k})
                ops.append({"op": "edge", "n": 25})
    # ... the same with the key interrupt enabled (LDSP; MOV (0xF9),1; EI first) and the key pressed before / after the continue key:
    # the first register write after the continue key is then the DEC SP of the interrupt entry, not a PC write
    for ps, t in [(39, 39), (38, 39), (40, 39), (39, 30)]:
        for keys in (["key_int", "continue"], ["continue", "key_int"], ["key_int", "key_int", "continue", "continue"], ["continue"]):
            img = [251, 239, 64, 251, 1, 31, 249, 8, 251, t, 19] + [2] * 28 + [1, 68, 240, 31, 255, 68, 2, 1, 32, 254]
            ops.append({"op": "load", "image": img, "ss": 16, "ps": ps})
            ops.append({"op": "edge", "n": 90})
            for k in keys:
                ops.append({"op": k})
                ops.append({"op": "edge", "n": 30})
    # STOP (and the error opcode) as the SECOND byte of every two-byte form: the halt is recognised wherever the byte is latched as an opcode
    for b in range(240, 256):
        for b2 in (1, 0):
            img = [b, 77, b2, 68, 68, 1] if ((b >> 2) & 3 >= 2 and b & 3 == 3) else [b, b2, 68, 68, 1, 2]
            ops.append({"op": "load", "image": img, "ss": 16, "ps": 255})
            ops.append({"op": "edge", "n": 30})
            ops.append({"op": "continue"})
            ops.append({"op": "edge", "n": 30})
    # limits carried across loads: a program with *PROGRAMSIZE / *STACKSIZE NOSET keeps the limits of the previous load (or of a new machine),
    # AUTO takes the image length; the jump targets straddle the old limit, the image length and the RAM end
    for first in (None, (200, 32), (20, 64), (0, 16), (45, 0), (-1, 48)):
        for ps2, ss2 in ((-2, -1), (-2, 32), (-1, -1), (-1, 16), (30, -1)):
            for tgt in (38, 39, 40, 41, 19, 20, 21, 44, 45, 46, 199, 200, 201, 238, 239):
                if first is None:
                    ops.append({"op": "new"})
                else:
                    ops.append({"op": "load", "image": [2, 2, 2, 1], "ss": first[1], "ps": first[0]})
                    ops.append({"op": "edge", "n": 5})
                ops.append({"op": "load", "image": [251, 0xD5, 64, 40, 251, tgt, 19] + [2] * 32 + [1], "ss": ss2, "ps": ps2})    # LDSP; PUSH R0; LD PC, tgt
                ops.append({"op": "edge", "n": 80})
    # STOP fetched while interrupts are enabled and the key is pressed around the fetch: every press time, per edge
    p3 = json.load(open(os.path.join(vlib.VERIF, "programs", "progint3.json")))
    for t in range(40, 95):
        ops.append({"op": "load", "image": p3, "ss": 16, "ps": 255})
        ops.append({"op": "edge", "n": t})
        ops.append({"op": "key_int"})
        ops.append({"op": "edge", "n": 60})
        ops.append({"op": "continue"})
        ops.append({"op": "edge", "n": 40})
    # random code with every stack size
    for i in range(6 if tier == "quick" else 40):
        img = ic.random_image(rng, biased=True, n=rng.choice([60, 120]))
        ops.append({"op": "load", "image": img, "ss": rng.choice([0, 16, 32, 48, 64]), "ps": rng.choice([255, len(img), 30])})
        ops.append({"op": "edge", "n": 500})
        ops += post_halt(rng)
    ops.append({"op": "checkpoint"})
    return ops


def run(tier, seed, replay):
    v = vlib.Verdict("C05", tier, seed)
    vlib.build_harness()
    vlib.gen_rom()
    states = trans = 0
    cases = []
    for s in ["sp", "pc"]:
        r = vlib.tlc(os.path.join(vlib.SPEC, "mc", "MC_Sup.tla"), os.path.join(vlib.SPEC, "mc", "MC_Sup_%s.cfg" % s), timeout=3000)
        states += r.distinct
        trans += r.generated
        for inv in r.violated:
            v.violation("sup:spec:" + inv, "Micro.tla with the tree's control store violates %s (suite %s)" % (inv, s),
                        {"tlc": r.out[r.out.find("Error: Invariant"):][:5000]})
        for c in vlib.tlc_replay_lines(r.out):
            load = {"op": "load", "image": c["image"], "ss": c["ss"], "ps": c["ps"]}
            cases.append({"pre": [{"op": "new"}, load], "h": [{"op": "edge", "n": c["k"]}], "s": c["s"], "what": "state at the halting edge"})
            if c["k"] > 1:
                cases.append({"pre": [{"op": "new"}, load], "h": [{"op": "edge", "n": c["k"] - 1}], "s": {"st": "Running"}, "what": "still Running one edge earlier"})
    # unbounded: the supervision invariant is inductive on the core abstraction (any control store, any program) - Apalache
    proof = os.path.join(vlib.SPEC, "proof", "SupCore.tla")
    apout = os.path.join(vlib.WORK, "apalache")
    obligations = [("Init => IndInv", ["--init=Init", "--inv=IndInv", "--length=0"]),
                   ("IndInv /\\ Next => IndInv'", ["--init=IndInv", "--inv=IndInv", "--length=1"]),
                   ("IndInv => SupInv", ["--init=IndInv", "--inv=SupInv", "--length=0"])]
    discharged = 0
    for name, args in obligations:
        p = vlib.sh(["timeout", "900", "apalache-mc", "check", "--out-dir=" + apout] + args + [proof], check=False, cwd=vlib.WORK)
        if "The outcome is: NoError" in p.stdout:
            discharged += 1
        elif "invariant" in p.stdout and "violated" in p.stdout:
            v.violation("sup:proof", "the supervision invariant is not inductive on SupCore.tla: obligation `%s` fails" % name, {"apalache": p.stdout[-2000:]})
        else:
            raise vlib.ToolError("apalache failed on %s:\n%s" % (name, (p.stdout + p.stderr)[-2000:]))
    res = vlib.replay_cases(cases, "c05")
    seen = set()
    for f in res["first"]:
        img = f["case"]["pre"][1]["image"]
        key = "sup:replay:%s" % ("sp" if img[0] == 251 and img[2] == 64 else "pc")
        if key in seen:
            continue
        seen.add(key)
        v.violation(key, "real machine differs from Micro.tla at the halting edge (%s): image %s ss=%s ps=%s: %s"
                    % (f["case"].get("what"), img[:8], f["case"]["pre"][1]["ss"], f["case"]["pre"][1]["ps"], f["diff"][:4]), f)
    rng = random.Random(seed)
    nt = 3 if tier == "quick" else 12
    traces = [vlib.run_scenario(trace_ops(rng, tier), "c05-%d" % i)[0] for i in range(nt)]
    results = [vlib.validate_trace(t, cfg="TraceMachineSup", module="TraceMachine") for t in traces] if nt <= 1 else \
        __import__("concurrent.futures").futures.ThreadPoolExecutor(max_workers=8).map(
            lambda t: vlib.validate_trace(t, cfg="TraceMachineSup", module="TraceMachine"), traces)
    results = list(results)
    nev = ic.report_trace_results(v, traces, results, "suptrace", "supervision / halt")
    cov = {
        "states": states, "transitions": trans, "traces_validated_against_impl": res["cases"] + len(traces),
        "samples": [cases[0], {"trace": traces[0]}],
        "halting_runs_replayed": res["cases"], "obligations": len(obligations), "discharged": discharged,
        "checker_cmd": "apalache-mc check --init=IndInv --inv=IndInv --length=1 spec/proof/SupCore.tla (and the two side obligations)", "trace_events_validated": nev, "exhaustive": False,
        "rule": "TLC: LDSP v for all 256 v x 5 stack sizes x 6 follow-ups (PUSH/POP, CALL/RET, POP on empty, PUSHF/POPF, unbounded recursion, RET on "
                "empty) and JMP t for all 256 targets x 10 limits (+AUTO); SupInv, AbstractsToCore (every edge is an instance of the core abstraction on which Apalache proves the invariant inductive: unbounded in programs and control store), StepProps (stop iff STOP fetched, error stop iff a commit breaks a rule "
                "or 0x00 fetched, at that very edge), Absorbing and post-halt closure at every state; every halting run replayed on the real machine "
                "(Running one edge earlier, full state at the halting edge); per-edge traces incl. post-halt stimuli validated with SupInv",
    }
    return v.finish("model_checking", cov, ["TLC", "corner left open by the property text (STOP fetched by the same edge that commits an illegal PC/SP: "
                                            "regular stop wins, run continues after the continue key) is exempt via `taint`"])
