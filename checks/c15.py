"""C15 - clock-cycle cost of an instruction = micro-steps + one wait per RAM access."""
import json
import os
import random

import vlib
from checks import isa_common as ic


def run(tier, seed, replay):
    v = vlib.Verdict("C15", tier, seed)
    vlib.build_harness()
    vlib.gen_rom()
    suites = ["shapes1", "shapes2", "addr", "alupairs"] + (["alusame", "alu"] if tier == "thorough" else [])
    states = trans = 0
    per_suite = {}
    for s in suites:
        r, sem, cost = ic.run_suite(s, workers=(12 if s == "alu" else None), xmx=("24g" if s == "alu" else "16g"))
        states += r.distinct
        trans += r.generated
        per_suite[s] = {"states": r.distinct, "cost_mismatches": len(cost), "semantic_mismatches(C01)": len(sem)}
        seen = set()
        for m in cost:
            key = "cost:op=0x%02X" % m["bytes"][0]
            if key in seen:
                continue
            seen.add(key)
            v.violation(key, "instruction bytes %s at PC=%s took %d clock edges between boundaries, Isa!cost (words + RAM waits) says %d"
                        % (m["bytes"], m["pc"], m["edges"], m["isa_cost"]) + (" (the next boundary is never reached)" if m.get("tag") == "stuck" else ""), m)
    # I->S: cost of every instruction of random sequences on the real machine (history / step-mode independence)
    rng = random.Random(seed + 15)
    nt, nimg, ninsn = (6, 6, 120) if tier == "quick" else (48, 10, 200)
    traces = []
    for i in range(nt):
        ops = ic.isa_trace_ops(rng, nimg, ninsn)
        traces.append(vlib.run_scenario(ops, "c15-isa-%d" % i)[0])
    # the count must not depend on the key history: per-edge traces with the continue / interrupt keys pressed at arbitrary edges of running programs
    etraces = [vlib.run_scenario(ic.edge_trace_ops(rng, 3, 400), "c15-edge-%d" % i)[0] for i in range(2 if tier == "quick" else 8)]
    eres = vlib.validate_traces(etraces, cfg="TraceMachine")
    nedge = ic.report_trace_results(v, etraces, eres, "costedgetrace", "clock-edge-level (key history)")
    res = vlib.validate_traces(traces, cfg="TraceIsaCost")
    nisa = ic.report_trace_results(v, traces, res, "costtrace", "instruction-cost")
    cov = {
        "states": states, "transitions": trans, "traces_validated_against_impl": len(traces),
        "samples": [{"isa_trace": traces[0], "events": res[0]["states"]}, {"suites": per_suite}],
        "isa_level_events_validated": nisa, "edge_level_events_validated": nedge, "suites": per_suite, "exhaustive": False,
        "rule": "same BFS as C01 with the invariant CostOk (edges between boundaries = Isa!cyc = 1 + body words of the form + one wait per access "
                "to an address <= 0xEF); code bound by validating the edge count of every instruction of random sequences on the real machine (incl. instructions fetched from the input registers and across 0xEF/0xF0) and per-edge traces with continue / interrupt keys at arbitrary edges",
    }
    return v.finish("model_checking", cov, ["TLC", "per-form word counts in Isa.tla were read off the decoded control store (DESIGN Appendix A)"])
