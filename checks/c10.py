"""C10 - bus address map: RAM, I/O registers and ports never alias or leak."""
import json
import os
import random

import vlib


def random_bus_ops(rng, n):
    ops = [{"op": "new"}]
    for _ in range(n):
        k = rng.random()
        if k < 0.45:
            a = rng.choice([rng.randrange(256), rng.choice([0, 1, 0xEE, 0xEF, 0xF0, 0xF1, 0xF2, 0xF3, 0xF9, 0xFA, 0xFB, 0xFC, 0xFD, 0xFE, 0xFF])])
            ops.append({"op": "bus_write", "a": a, "v": rng.randrange(256)})
        elif k < 0.85:
            a = rng.choice([rng.randrange(256), rng.choice([0, 0xEF, 0xF0, 0xF1, 0xF3, 0xF9, 0xFC, 0xFD, 0xFE, 0xFF])])
            ops.append({"op": "bus_read", "a": a})
        elif k < 0.95:
            ops.append({"op": "set_input", "k": rng.randrange(4), "v": rng.randrange(256)})
        elif k < 0.97:
            ops.append({"op": "set_di1", "v": rng.randrange(256)})
        elif k < 0.985:
            from checks import isa_common as ic
            ops += [o for o in ic.board_irq_ops(rng) if o["op"] != "edge"]
            ops += [{"op": "bus_read", "a": 0xF3}, {"op": "bus_read", "a": 0xF1}]
        else:
            ops.append({"op": "key_int"})
    ops.append({"op": "checkpoint"})
    return ops


def run(tier, seed, replay):
    v = vlib.Verdict("C10", tier, seed)
    vlib.build_harness()
    vlib.gen_rom()
    # (1) TLC: map-based reference vs decoder on the whole single-operation domain + all address pairs
    r = vlib.tlc(os.path.join(vlib.SPEC, "mc", "MC_Bus.tla"), os.path.join(vlib.SPEC, "mc", "MC_Bus.cfg"), timeout=1500)
    if r.violated:
        raise vlib.ToolError("Bus.tla does not refine its own map model (spec bug): %s\n%s" % (r.violated, r.out[-3000:]))
    cases = vlib.tlc_replay_lines(r.out)
    p = os.path.join(vlib.WORK, "bus_cases.ndjson")
    vlib.write_ndjson(p, cases)
    # (2) S->I: force every enumerated case onto the real Bus
    res = vlib.vh_json(["bus-sig-check", p])
    if not res["reads_pure"]:
        v.violation("bus:read-mutates", "a bus read changed the bus state", {"cmd": "./check C10"})
    seen = set()
    for f in res["first"]:
        key = "bus:%s:addr=0x%02X" % (f["kind"], f.get("addr", f.get("addr1", 0)))
        if key in seen:
            continue
        seen.add(key)
        v.violation(key, "real Bus differs from Bus.tla (signature = ramsum, FC..FF inputs, FE/FF outputs, MICR, MISR, DI1, DO1, DO2, read-back, DASR, DAISR): %s" % json.dumps(f), f)
    if res["mismatches"] and not res["first"]:
        v.violation("bus:mismatch", "%d mismatches" % res["mismatches"], res)
    # (3) I->S: random read / write / set-input sequences on the real bus, validated by the spec
    rng = random.Random(seed)
    ntr, nops = (4, 1500) if tier == "quick" else (24, 4000)
    traces = []
    for i in range(ntr):
        tp, summ = vlib.run_scenario(random_bus_ops(rng, nops), "c10-%d" % i)
        traces.append(tp)
    results = vlib.validate_traces(traces, cfg="TraceBus")
    nev = 0
    for tp, tr in zip(traces, results):
        nev += tr["states"]
        if not tr["accepted"]:
            ev = vlib.event_at(tp, tr["reached"]) if tr["reached"] else {}
            v.violation("bus:trace:%s" % tr["op"], "trace of random bus operations rejected by Bus.tla at event %s" % tr["reached"],
                        {"trace": tp, "rejected": ev, "tlc": tr["out_tail"]})
    cov = {
        "states": r.distinct, "transitions": r.generated,
        "traces_validated_against_impl": res["singles"] + res["pairs"] + len(traces),
        "samples": [cases[1] if len(cases) > 1 else None, cases[-1]][:2],
        "exhaustive": True,
        "single_ops_replayed": res["singles"], "address_pairs_replayed": res["pairs"],
        "random_trace_events_validated": nev,
        "rule": "TLC enumerates 5 pre-states x 256 addresses (invariant over all 256 bytes) and all 65 536 ordered pairs of "
                "write addresses, checking Bus.tla against the map model; each case is replayed on the real Bus and the "
                "signature compared; plus random op sequences validated event by event (C10 fields only)",
    }
    cov["samples"] = [{"kind": c["kind"], "p": c.get("p"), "a": c.get("a"), "b": c.get("b"),
                       "row": c.get("row") or (c.get("rows") or [None])[0]} for c in cov["samples"] if c]
    return v.finish("model_checking", cov, ["TLC", "harness signature/projection code", "verif hook read accessors"])
