"""Shared by C02, C03, C06, C16: run texts through the real parser / translator / formatter and have TLC
judge the records with Mrasm.tla / Asm.tla."""
import json
import os
import re
from concurrent.futures import ThreadPoolExecutor

import vlib
from checks import textgen as tg


def parse_texts(texts, name, mode):
    """texts: list of str -> path of the NDJSON written by the real code, summary"""
    d = os.path.join(vlib.WORK, "texts")
    os.makedirs(d, exist_ok=True)
    ip = os.path.join(d, name + ".in.ndjson")
    op = os.path.join(d, name + ".out.ndjson")
    vlib.write_ndjson(ip, [{"t": tg.cps(t)} for t in texts])
    summ = vlib.vh_json(["parse-texts", ip, op, mode], timeout=3000)
    return op, summ


def judge(path, cfg, module, chunk=700, max_rejects=12, jobs=8):
    """validate the records in parallel chunks; after a rejected record the rest of its chunk is re-validated without it.
    returns (n_validated, [rejected records], tlc_outputs)"""
    lines = open(path).read().splitlines()
    chunks = [lines[i:i + chunk] for i in range(0, len(lines), chunk)]
    d = os.path.dirname(path)

    def one(ix):
        cur = list(chunks[ix])
        rej = []
        outs = []
        validated = 0
        while True:
            cp = os.path.join(d, "%s.chunk%d.ndjson" % (os.path.basename(path), ix))
            open(cp, "w").write("\n".join(cur) + "\n")
            r = vlib.tlc(os.path.join(vlib.SPEC, "trace", module + ".tla"), os.path.join(vlib.SPEC, "trace", cfg + ".cfg"), workers=1,
                         env={"TRACE": cp}, timeout=3000, xmx="3g", xss="512m", deque=True, name="%s-%s-%d" % (cfg, os.path.basename(path), ix))
            outs.append(r.out)
            m = re.search(r'<<"REJECTED", (-?\d+), (-?\d+), "([^"]*)">>', r.out)
            if not m:
                if not r.ok:
                    raise vlib.ToolError("trace validation failed without a verdict:\n" + r.out[-3000:])
                validated += len(cur)
                break
            idx = int(m.group(1))
            rec = json.loads(cur[idx - 1])
            rec["_spec_verdict"] = m.group(3)
            rej.append(rec)
            validated += idx - 1
            cur = cur[idx:]
            if len(rej) >= max_rejects or not cur:
                break
        return validated, rej, outs

    with ThreadPoolExecutor(max_workers=jobs) as ex:
        res = list(ex.map(one, range(len(chunks))))
    return sum(r[0] for r in res), [x for r in res for x in r[1]], [o for r in res for o in r[2]]


def text_of(rec):
    return "".join(chr(c) for c in rec["t"])


def mutant_sample(rec):
    return {"text": text_of(rec), "real_verdict": rec.get("v"), "why": rec.get("why"), "spec_verdict": rec.get("_spec_verdict")}
