"""C06 - every program the parser accepts can be compiled and loaded without a crash."""
import os
import random
import re
import subprocess

import vlib
from checks import asm_common as ac
from checks import textgen as tg


def risk_programs(rng):
    out = []
    # labels referenced in every case variant
    for ref in ["Lbl", "LBL", "lbl", "lBL"]:
        out.append("#! mrasm\nLbl:\nJMP %s\nLD R0, %s\nMOV (%s), R1\nCALL %s\nJZS %s\n" % ((ref,) * 5))
        out.append("#! mrasm\n.EQU Lbl 7\nLD R0, %s\nDEC %s\n" % (ref, ref))
    # every operand shape of DEC / LDSP / LDFR
    for m in ["DEC", "LDSP", "LDFR"]:
        for o in ["R1", "(R1)", "(R1+)", "((R1+))", "(0x10)", "(Lbl)", "5", "Lbl", "PC", "(PC+)", "((PC+))"]:
            out.append("#! mrasm\nLbl:\n%s %s\n" % (m, o))
    # .ORG to every address relative to the current position
    for pre in [0, 1, 5, 100, 239, 240, 250, 255]:
        for org in sorted({0, 1, max(pre - 1, 0), pre, min(pre + 1, 255), 200, 239, 240, 241, 255}):
            out.append("#! mrasm\n.BYTE %d\n.ORG %d\nNOP\n" % (pre, org))
    # image sizes 0 .. beyond 256
    for size in list(range(0, 12)) + list(range(230, 262)) + [300, 400, 510, 511, 512, 700]:
        lines = []
        left = size
        while left > 0:
            k = min(left, 255)
            lines.append(".BYTE %d" % k if rng.random() < 0.5 else ".DB " + ", ".join(str(rng.randrange(256)) for _ in range(min(k, 20))))
            left -= k if lines[-1].startswith(".BYTE") else min(k, 20)
        out.append("#! mrasm\n" + "\n".join(lines) + "\nSTOP\nend:\nJR end\n")
        out.append("#! mrasm\n.DW " + ", ".join("0x1234" for _ in range(max(size // 2, 1))) + "\n")
    return out


KNOWN = {"backward_org": "c06:backward_org", "oversize": "c06:oversize"}


def run(tier, seed, replay):
    v = vlib.Verdict("C06", tier, seed)
    vlib.build_harness()
    os.environ["VH_TRACE_LOG"] = "1"      # the harness formats every log record of the code under test (as `-vvvv` does)
    binary = vlib.build_binary()
    rng = random.Random(seed)
    n = 1200 if tier == "quick" else 12000
    texts = risk_programs(rng) + tg.repo_corpus() + tg.edge_texts() + tg.numeric_programs() + tg.token_mutations(rng) + tg.odd_space_texts()
    texts += [tg.program(rng, nlines=rng.randrange(0, 16)) for _ in range(n)]
    texts += [tg.mutate_chars(rng, tg.program(rng), 1) for _ in range(n // 2)]
    shapes = tg.all_shapes()
    step = 4 if tier == "quick" else 1
    texts += [tg.shape_program(s, tg.CONTEXTS[(i + seed) % len(tg.CONTEXTS)], i % 4) for i, s in enumerate(shapes) if i % step == 0]
    path, summ = ac.parse_texts(texts, "c06", "full")
    lines = open(path).read().splitlines()
    r = vlib.tlc(os.path.join(vlib.SPEC, "trace", "TraceAsm.tla"), os.path.join(vlib.SPEC, "trace", "TraceAsm_C06.cfg"), workers=1,
                 env={"TRACE": path}, timeout=6000, xmx="6g", xss="512m", deque=True, name="c06-judge")
    if not r.ok:
        raise vlib.ToolError("C06 judge failed:\n" + r.out[-3000:])
    crashes = re.findall(r'<<"CRASH", (\d+), "(\w+)">>', r.out)
    import json
    accepted = sum(1 for l in lines if '"v":"accept"' in l)
    seen = set()
    for seq, cls in crashes:
        rec = json.loads(lines[int(seq) - 1])
        msg = rec.get("compile_panic") or rec.get("render_panic") or rec.get("msg") or ""
        site = re.sub(r"\d+", "N", msg)[:60]
        key = KNOWN.get(cls) or ("c06:crash:%s:%s" % (cls, site))
        what = "accepted program crashes compile/load/listing (%s; class %s): %r" % (msg[:120], cls, ac.text_of(rec)[:300])
        if (key, site) in seen:
            continue
        seen.add((key, site))
        v.violation(key, what, {"text": ac.text_of(rec), "panic": msg, "class": cls})
    # the command-line tool: whatever `verify` reports as valid must survive `run`
    d = os.path.join(vlib.WORK, "cli6")
    os.makedirs(d, exist_ok=True)
    sample = risk_programs(random.Random(1))[:40] + [tg.program(rng) for _ in range(20 if tier == "quick" else 200)]
    # programs without any byte (header, comments, labels, constants, size directives only) and tiny ones, in every front end / verbosity
    sample += ["#! mrasm", "#! mrasm\n", "#! mrasm ; nothing\n; c\n\n", "#! mrasm\nl:\nm:\n", "#! mrasm\n.EQU k 5\n*STACKSIZE 32\n*PROGRAMSIZE NOSET\n",
               "#! mrasm\n.ORG 0\n", "#! mrasm\n.BYTE 0\n", "#! mrasm\n.ORG 0\nl:\n.BYTE 0\n*PROGRAMSIZE AUTO\n", "#! mrasm\nNOP\n", "#! mrasm\n.DB 0\n"]
    ncli = 0
    for i, t in enumerate(sample):
        fp = os.path.join(d, "p%d.asm" % i)
        open(fp, "w").write(t)
        pv = subprocess.run([binary, "verify", fp], stdout=subprocess.PIPE, stderr=subprocess.PIPE, text=True, timeout=60, env=dict(os.environ, NO_COLOR="1"))
        if pv.returncode != 0:
            continue
        # the documented verbosity flags change which log statements are evaluated: alternate between quiet and -vvvv (trace)
        verbose = ["-vvvv"] if i % 2 else []
        pr = subprocess.run([binary] + verbose + ["run", fp, "50"], stdout=subprocess.PIPE, stderr=subprocess.PIPE, text=True, timeout=60, env=dict(os.environ, NO_COLOR="1"))
        if pr.returncode in (0, 1) and "panicked" not in pr.stderr and not verbose and len(t) < 80:
            pr = subprocess.run([binary, "-vvvv", "run", fp, "50"], stdout=subprocess.PIPE, stderr=subprocess.PIPE, text=True, timeout=60, env=dict(os.environ, NO_COLOR="1"))
        ncli += 1
        if pr.returncode not in (0, 1) or "panicked" in pr.stderr:
            # classify through the same judge
            p2, _ = ac.parse_texts([t], "c06-cli-%d" % i, "full")
            r2 = vlib.tlc(os.path.join(vlib.SPEC, "trace", "TraceAsm.tla"), os.path.join(vlib.SPEC, "trace", "TraceAsm_C06.cfg"), workers=1,
                          env={"TRACE": p2}, timeout=600, xmx="2g", xss="512m", deque=True, name="c06-cli")
            m = re.search(r'<<"CRASH", (\d+), "(\w+)">>', r2.out)
            cls = m.group(2) if m else "cli-only"
            key = KNOWN.get(cls) or "c06:cli:%s" % cls
            v.violation(key, "`2a-emulator verify` accepts the file but `run` crashes (exit %s): %r" % (pr.returncode, t[:200]), {"text": t, "stderr": pr.stderr[-500:]})
    # the interactive front end: `load PATH` builds the program pane from the byte code and draws it
    from checks import tui_common as tc
    tsample = risk_programs(random.Random(2)) + [tg.program(rng, nlines=rng.randrange(0, 30)) for _ in range(30 if tier == "quick" else 300)]
    script = []
    starts = []
    for i, t in enumerate(tsample):
        # file names matter too: the program pane shows the name (short, long, multi-byte, cut positions inside a character)
        stem = ["t%d", "blatt-3-zähler-mit-überlauf-v2-%d", "€€€€€€€€€€€€€€€€€€€€€€€€€€€€€€-%d", "a-very-long-program-file-name-that-does-not-fit-into-the-side-bar-%d", "😀%d"][i % 5]
        fp = os.path.join(d, (stem % i) + ".asm")
        open(fp, "w").write(t)
        starts.append(len(script))
        script += ["new", "size 120 45"] + [tc.key_line(k) for k in tc.type_line("load " + fp)] + ["enter", "enter", "draw", "size 80 24", "draw"]
    recs, proc = tc.run_script(script, "c06-tui")
    ntui = 0
    bad_tui = []
    for i, t in enumerate(tsample):
        lo = starts[i]
        hi = starts[i + 1] if i + 1 < len(starts) else len(script)
        chunk = recs[lo:hi]
        ntui += 1
        pan = [x for x in chunk if x.get("key_panic") is not None or x.get("draw_panic") is not None]
        if pan or len(chunk) < hi - lo:
            bad_tui.append((t, (pan[0].get("key_panic") or pan[0].get("draw_panic")) if pan else "session ended"))
    if bad_tui:
        p3, _ = ac.parse_texts([t for t, _ in bad_tui], "c06-tui-crash", "full")
        # classify on the real AST; a text the parser rejects cannot be loaded (notification), so it never crashes here
        r3 = vlib.tlc(os.path.join(vlib.SPEC, "trace", "TraceAsm.tla"), os.path.join(vlib.SPEC, "trace", "TraceAsm_C06.cfg"), workers=1,
                      env={"TRACE": p3}, timeout=900, xmx="3g", xss="512m", deque=True, name="c06-tui-judge")
        cls_by_seq = {int(a): b for a, b in re.findall(r'<<"CRASH", (\d+), "(\w+)">>', r3.out)}
        lines3 = [json.loads(l) for l in open(p3)]
        for n, (t, msg) in enumerate(bad_tui, 1):
            rec3 = lines3[n - 1]
            if rec3.get("v") == "accept":
                a_cls = cls_by_seq.get(n)
                if a_cls is None:
                    # compile/load did not crash in the library: the crash is the front end's own
                    a_cls = "tui-only"
            else:
                a_cls = "rejected-text"
            key = KNOWN.get(a_cls) or "c06:tui:%s:%s" % (a_cls, re.sub(r"\d+", "N", msg)[:50])
            if (key,) in seen:
                continue
            seen.add((key,))
            v.violation(key, "`load` of an accepted program crashes the interactive session (%s; class %s): %r" % (msg[:120], a_cls, t[:200]), {"text": t, "panic": msg})
    cov = {
        "states": r.distinct, "transitions": r.generated, "traces_validated_against_impl": len(lines),
        "samples": [{"text": texts[3]}, {"text": texts[-1]}], "texts": len(texts), "accepted_by_real_parser": accepted, "crashes_seen": len(crashes),
        "cli_verify_then_run": ncli, "tui_loads": ntui, "exhaustive": False,
        "evaluations": len(texts), "distinct_nontrivial": len(set(texts)),
        "rule": "risk classes of the property (labels referenced in every case variant, every operand shape of DEC/LDSP/LDFR, .ORG to addresses below / "
                "at / above the current position, image sizes 0..700 built from .BYTE/.DB/.DW) + random and mutated programs + every instruction shape; "
                "each accepted text is compiled, listed (Display of ByteCode) and loaded into a Machine under catch_unwind; TLC classifies every crash "
                "with Asm.tla (backward .ORG / oversize / defined); `2a-emulator verify` then `run` on a sample; `load PATH` typed into the real interactive session (program pane built and drawn)",
    }
    return v.finish("model_checking", cov, ["TLC classifies; the exploration engine for panics is the generator (stated in DESIGN.md)",
                                            "Translator::compile has no error channel: backward .ORG and oversize images are recorded as known findings"])
