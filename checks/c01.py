"""C01 - the CPU executes every emittable instruction exactly per the instruction set."""
import json
import os
import random

import vlib
from checks import isa_common as ic


def run(tier, seed, replay):
    v = vlib.Verdict("C01", tier, seed)
    vlib.build_harness()
    vlib.gen_rom()
    suites = ["shapes1", "shapes2", "addr", "alusame", "alupairs"] + (["unary", "alu"] if tier == "thorough" else [])
    states = trans = 0
    per_suite = {}
    for s in suites:
        r, sem, cost = ic.run_suite(s, workers=(12 if s == "alu" else None), xmx=("24g" if s == "alu" else "16g"))
        states += r.distinct
        trans += r.generated
        per_suite[s] = {"states": r.distinct, "semantic_mismatches": len(sem), "cost_mismatches": len(cost)}
        if s in ("shapes1", "shapes2", "addr", "alupairs"):
            per_suite[s]["replayed_on_real_machine"] = ic.replay_seeds(v, r.out, "c01-" + s, every=(3 if tier == "quick" and s != "shapes2" else 1))
        seen = set()
        for m in sem:
            key = "isa:op=0x%02X" % m["bytes"][0] if "bytes" in m else "isa:unparsed"
            if key in seen:
                continue
            seen.add(key)
            v.violation(key, "Micro(Rom of the tree) does not refine Isa.tla for instruction bytes %s at PC=%s: micro state %s / ISA state %s, differing fields %s"
                        % (m.get("bytes"), m.get("pc"), m.get("micro_state"), m.get("isa_state"), m.get("diff")), m)
    # instruction SEQUENCES on the specification: random images, refinement + cost at every boundary, key interrupts in between
    rng0 = random.Random(seed + 1)
    nimg0 = 150 if tier == "quick" else 1500
    imgs = [{"image": ic.random_image(rng0, biased=(i % 5 != 0), n=rng0.choice([60, 120, 230])), "ss": rng0.choice([0, 16, 32, 48, 64]),
             "keyevery": rng0.choice([0, 0, 3, 7])} for i in range(nimg0)]
    ipath = os.path.join(vlib.WORK, "seq_images.ndjson")
    vlib.write_ndjson(ipath, imgs)
    sq = vlib.tlc(os.path.join(vlib.SPEC, "mc", "MC_IsaSeq.tla"), os.path.join(vlib.SPEC, "mc", "MC_IsaSeq.cfg"), env={"IMAGES": ipath},
                  extra=["-continue"], timeout=7200, xmx="16g", name="isa-seq")
    states += sq.distinct
    trans += sq.generated
    per_suite["sequences"] = {"states": sq.distinct, "images": nimg0}
    for line in sq.out.splitlines():
        if "SEQMISMATCH" in line:
            v.violation("isa:seq", "on an instruction sequence Micro(Rom of the tree) does not refine Isa.tla / the ISA cost: %s "
                        "(image index, boundary number, PC, opcode, edges, ISA cost, ISA state)" % line[:200], {"line": line, "images": ipath})
            break
    # whole-domain binding of the pure pieces EdgeF is built from (exact function equality)
    t = vlib.tlc(os.path.join(vlib.SPEC, "mc", "MC_CtlTables.tla"), os.path.join(vlib.SPEC, "mc", "MC_CtlTables.cfg"), timeout=1800)
    dec = [None] * 512
    irs = [None] * 512
    table = {}
    for row in vlib.tlc_replay_lines(t.out):
        if row["kind"] == "decode":
            dec[row["a"]] = row["row"]
        elif row["kind"] == "irstep":
            irs[row["a"]] = row["row"]
        else:
            table.setdefault(row["class"], [None] * 256)[row["ir"]] = row["row"]
    classes = sorted(table.keys())
    dp = os.path.join(vlib.WORK, "decode_ref.json")
    json.dump(dec, open(dp, "w"))
    npth = os.path.join(vlib.WORK, "nextaddr_ref.json")
    json.dump({"classes": classes, "table": [[x for ir in range(256) for x in table[c][ir]] for c in classes]}, open(npth, "w"))
    d = vlib.vh_json(["decode-check", dp, "all"])
    if d["mismatches"]:
        v.violation("bind:decode", "real control-word decode (register selects, ALU function, constants, enables) differs from Signals.tla on %d rows, e.g. %s"
                    % (d["mismatches"], json.dumps(d["first"][:3])), d["first"])
    n = vlib.vh_json(["nextaddr-check", npth, "exact"], timeout=1800)
    if n["mismatches"] or n["missing_class"]:
        v.violation("bind:nextaddr", "real next-address / interrupt-clear logic differs from Signals.tla on %d of %d rows, e.g. %s"
                    % (n["mismatches"], n["rows"], json.dumps(n["first"][:3])), n["first"])
    ip = os.path.join(vlib.WORK, "irstep_ref.json")
    json.dump(irs, open(ip, "w"))
    ir = vlib.vh_json(["irstep-check", ip])
    if ir["mismatches"]:
        v.violation("bind:irstep", "instruction-register update / halt detection of one real clock edge differs from Micro.tla on %d (word, bus byte) pairs, "
                    "e.g. %s" % (ir["mismatches"], json.dumps(ir["first"][:3])), ir["first"])
    ref = os.path.join(vlib.WORK, "alu_ref.json")
    a = vlib.tlc(os.path.join(vlib.SPEC, "mc", "MC_Alu.tla"), os.path.join(vlib.SPEC, "mc", "MC_Alu.cfg"), env={"OUT": ref}, timeout=900)
    al = vlib.vh_json(["alu-check", ref])
    if al["mismatches"]:
        v.violation("bind:alu", "real ALU differs from Alu.tla on %d points (see C08), e.g. %s" % (al["mismatches"], json.dumps(al["first"][:3])), al["first"])
    # I->S: random instruction sequences on the real machine, validated per instruction (Isa) and per edge (Micro)
    rng = random.Random(seed)
    nt, nimg, ninsn = (6, 6, 120) if tier == "quick" else (48, 10, 200)
    traces = [vlib.run_scenario(ic.isa_trace_ops(rng, nimg, ninsn), "c01-isa-%d" % i)[0] for i in range(nt)]
    # the repository's own programs, assembled by the real assembler, with key interrupts at instruction boundaries
    from checks import textgen as tg
    corpus_ops = [{"op": "new", "cfg": {"inr": [3, 7, 0, 0]}}]
    for src in tg.repo_corpus():
        corpus_ops += [{"op": "load_asm", "src": src}, {"op": "set_input", "k": 0, "v": 3}, {"op": "isa_run", "n": 150, "key_every": rng.choice([0, 5, 11])}]
    tp_corpus, summ_corpus = vlib.run_scenario(corpus_ops, "c01-corpus")
    # load_asm of a text the parser rejects is logged as a panic event by the harness; drop those (C03 judges them)
    kept = [l for l in open(tp_corpus) if '"op":"panic"' not in l]
    open(tp_corpus, "w").write("".join(kept))
    traces.append(tp_corpus)
    res = vlib.validate_traces(traces, cfg="TraceIsa")
    nisa = ic.report_trace_results(v, traces, res, "isatrace", "instruction-level")
    nt2, nimg2, nedges = (4, 3, 700) if tier == "quick" else (32, 6, 1500)
    etraces = [vlib.run_scenario(ic.edge_trace_ops(rng, nimg2, nedges), "c01-edge-%d" % i)[0] for i in range(nt2)]
    # "to the next instruction boundary" through the other public entry point: whole assembly-mode steps over the longest instructions
    # (MUL, DIV by 1 with the largest quotients) with and without a key interrupt, and over every opcode with an interrupt accepted at its end
    from checks import c11
    etraces.append(vlib.run_scenario(c11.long_instruction_trace(), "c01-long")[0])
    etraces.append(vlib.run_scenario(c11.bytes_int_trace(range(0, 256, 3)), "c01-int")[0])
    eres = vlib.validate_traces(etraces, cfg="TraceMachine")
    nedge = ic.report_trace_results(v, etraces, eres, "edgetrace", "clock-edge-level")
    cov = {
        "states": states + t.distinct + a.distinct, "transitions": trans + t.generated + a.generated,
        "traces_validated_against_impl": len(traces) + len(etraces) + sum(x.get("replayed_on_real_machine", 0) for x in per_suite.values()),
        "behaviours_replayed_on_real_machine": sum(x.get("replayed_on_real_machine", 0) for x in per_suite.values()),
        "samples": [{"suite": "shapes1", "seed_example": "pc=16 bytes=[0x64,77,19] regs=(128,77,255) FR=15 pending interrupt"},
                    {"isa_trace": traces[0], "events": res[0]["states"]}],
        "suites": per_suite,
        "decode_rows_compared": d["rows"], "nextaddr_rows_compared": n["rows"], "alu_points_compared": al["points"],
        "isa_level_events_validated": nisa, "edge_level_events_validated": nedge,
        "exhaustive": False,
        "rule": "TLC BFS: every one-byte opcode x 2 PCs x 4 register sets x 5 flag values x pending interrupt; every first byte 0xF0-0xFF x every "
                "defined (and some undefined) second bytes; addresses across the RAM/I-O boundary and supervision bands; Rd=Rs for all 256 values "
                "x carry; all 16 register pairs x boundary values; random instruction sequences (refinement at every boundary) (thorough: unary group all values x 16 flags, register-register group incl. MUL/DIV all 65 536 pairs x carry); at every "
                "boundary the whole abstract state must equal IsaStep. Code bound by whole-domain equality of decode, next-address, IR-step and ALU functions, "
                "by replaying the explored boundary-to-boundary behaviours on the real machine (state rebuilt through the hooks, every field compared), "
                "and by validating random instruction sequences of the real machine per instruction (TraceIsa) and per clock edge (TraceMachine).",
    }
    return v.finish("model_checking", cov, ["TLC", "Isa.tla as the reading of the instruction-set definition (DESIGN Appendix A)",
                                            "verif hooks (snapshot/restore)", "MUL/DIV/… with PC as destination and second bytes 0x02-0x0F are unspecified"])
