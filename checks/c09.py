"""C09 - micro-sequencer control flow is well formed: defined opcodes always complete."""
import json
import os
import re

import vlib


def run(tier, seed, replay):
    v = vlib.Verdict("C09", tier, seed)
    vlib.build_harness()
    words = vlib.gen_rom()
    # (1) the control graph of the working tree's control store, all inputs nondeterministic
    r = vlib.tlc(os.path.join(vlib.SPEC, "mc", "MC_Ctl.tla"), os.path.join(vlib.SPEC, "mc", "MC_Ctl.cfg"), timeout=1800)
    for inv in r.violated:
        tail = r.out[r.out.find("Error: Invariant"):][:6000]
        states = re.findall(r"/\\ maddr = (\d+)", tail)
        irs = re.findall(r"/\\ ir = (\d+)", tail)
        v.violation("ctl:" + inv, "control graph of the tree's control store violates %s; path of micro addresses %s, IR values %s"
                    % (inv, states[-12:], irs[-12:]), {"invariant": inv, "counterexample": tail})
    # (2) bind Signals.tla to the real decode / next-address functions on their whole domain
    t = vlib.tlc(os.path.join(vlib.SPEC, "mc", "MC_CtlTables.tla"), os.path.join(vlib.SPEC, "mc", "MC_CtlTables.cfg"), timeout=1800)
    rows = vlib.tlc_replay_lines(t.out)
    dec = [None] * 512
    irs = [None] * 512
    classes, table = [], {}
    for row in rows:
        if row["kind"] == "decode":
            dec[row["a"]] = row["row"]
        elif row["kind"] == "irstep":
            irs[row["a"]] = row["row"]
        else:
            table.setdefault(row["class"], [None] * 256)[row["ir"]] = row["row"]
    if any(d is None for d in dec) or any(any(x is None for x in t_) for t_ in table.values()):
        raise vlib.ToolError("incomplete reference tables from TLC")
    classes = sorted(table.keys())
    dp = os.path.join(vlib.WORK, "decode_ref.json")
    json.dump(dec, open(dp, "w"))
    npth = os.path.join(vlib.WORK, "nextaddr_ref.json")
    json.dump({"classes": classes, "table": [[x for ir in range(256) for x in table[c][ir]] for c in classes]}, open(npth, "w"))
    d = vlib.vh_json(["decode-check", dp, "mac"])
    if d["mismatches"]:
        v.violation("ctl:decode", "real sequencer-control bits (MAC3..0: fetch / IR load / IR reset / dispatch) differ from Signals.tla on %d of %d (word, IR) rows, e.g. %s"
                    % (d["mismatches"], d["rows"], json.dumps(d["first"][:3])), d["first"])
    n = vlib.vh_json(["nextaddr-check", npth, "sets"], timeout=1800)
    if n["mismatches"] or n["missing_class"]:
        v.violation("ctl:nextaddr", "successor sets (over all flag / ALU-condition / interrupt inputs) of the real next-address function differ from Signals!NextAddr for %d (word, IR) pairs [%d rows evaluated], e.g. %s"
                    % (n["mismatches"], n["rows"], json.dumps(n["first"][:3])), n["first"])
    ip = os.path.join(vlib.WORK, "irstep_ref.json")
    json.dump(irs, open(ip, "w"))
    ir = vlib.vh_json(["irstep-check", ip])
    if ir["mismatches"]:
        v.violation("ctl:irstep", "instruction-register update / halt detection of one real clock edge differs from Micro.tla on %d of %d (word, bus byte) "
                    "pairs, e.g. %s" % (ir["mismatches"], ir["rows"], json.dumps(ir["first"][:3])), ir["first"])
    # the graph is explored "from reset": the real resets must put the sequencer into the specification's reset control state
    # (micro address 0, instruction register 0x02) whatever instruction was in flight
    rcases = []
    for irv in range(256):
        for kind in ("cpu_reset", "master_reset"):
            rcases.append({"pre": [{"op": "restore", "state": {"maddr": (irv * 2 + 1) % 512, "ir": irv, "lbr": irv, "prw": 3, "wait": True}}],
                           "h": [{"op": kind}], "s": {"maddr": 0, "ir": 2, "prw": -1, "wait": False, "lbr": 0, "st": "Running"}})
        rcases.append({"pre": [{"op": "restore", "state": {"maddr": (irv * 2 + 1) % 512, "ir": irv}}],
                       "h": [{"op": "load", "image": [2, 2, 1], "ss": 16, "ps": -1}], "s": {"maddr": 0, "ir": 2, "st": "Running"}})
    # the keys that are not resets never move the sequencer: continue / interrupt key while Running, at every micro address, with and without a pending wait
    for ma in range(512):
        for w in (False, True):
            for kind in ("continue", "key_int"):
                rcases.append({"pre": [{"op": "restore", "state": {"maddr": ma, "ir": ma % 256, "wait": w, "micr": 1}}],
                               "h": [{"op": kind}], "s": {"maddr": ma, "ir": ma % 256, "wait": w, "st": "Running"}})
    rres = vlib.replay_cases(rcases, "c09-reset")
    if rres["mismatches"]:
        f = rres["first"][0]
        v.violation("ctl:reset", "after %s with IR=%s in flight the sequencer is not in the control state the specification prescribes (resets: micro address 0, IR 0x02; continue / interrupt key: unchanged): %s"
                    % (f["case"]["h"][0]["op"], f["case"]["pre"][0]["state"]["ir"], f["diff"][:3]), f)
    # (3) the data-driven loops terminate: all operand pairs on the real machine
    md = vlib.vh_json(["muldiv-term"])
    for e in md:
        if e["nonterminating"]:
            v.violation("ctl:loop:" + e["op"], "%s does not terminate / does not reach STOP: %s" % (e["op"], json.dumps(e["nonterminating"][:3])), e)
    # ... also when the instruction is run as ONE assembly-mode step (the other public way to clock the sequencer), with and without a key interrupt
    from checks import c11
    from checks import isa_common as ic
    ltr = [vlib.run_scenario(c11.long_instruction_trace(), "c09-long")[0], vlib.run_scenario(c11.bytes_int_trace(range(0, 256, 2)), "c09-int")[0]]
    lres = vlib.validate_traces(ltr, cfg="TraceMachine")
    ic.report_trace_results(v, ltr, lres, "ctl:asmstep", "assembly-step over MUL / DIV")
    cov = {
        "states": r.distinct + t.distinct, "transitions": r.generated + t.generated,
        "traces_validated_against_impl": d["rows"] + n["rows"] + ir["rows"],
        "irstep_rows_compared": ir["rows"], "reset_control_state_cases": rres["cases"],
        "samples": [{"decode_row_word_0x006_ir_0": dec[6][0]}, {"nextaddr_class": classes[-1], "ir": 16, "first_8": table[classes[-1]][16][:8]},
                    {"muldiv": md}],
        "exhaustive": True,
        "control_graph_states": r.distinct, "control_graph_depth": r.depth,
        "decode_rows_compared": d["rows"], "nextaddr_rows_compared": n["rows"], "nextaddr_classes": len(classes),
        "muldiv_runs": sum(e["runs"] for e in md), "muldiv_max_edges": {e["op"]: e["max_edges"] for e in md},
        "rule": "TLC explores the abstract control machine (maddr, IR) of the tree's control store with every data-dependent input "
                "nondeterministic, from reset and from all 15 fetch words with all 256 loaded bytes; Signals.tla is compared with the "
                "real decode (512 x 256) and the real next-address function (512 x 2^17 forced through verif_restore); MUL/DIV "
                "loops run on the real machine for all 16 register pairs x all 65 536 value pairs x carry; IR update / halt detection of one real edge compared for all 512 x 256 (word, bus byte) pairs",
    }
    return v.finish("model_checking", cov, ["TLC", "verif_restore/verif_snapshot hooks (every restored state is read back)",
                                            "definition of the defined opcode sets in MC_Ctl.tla (Appendix A of DESIGN.md)"])
