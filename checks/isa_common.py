"""Shared by C01 (instruction semantics) and C15 (cycle cost): the Micro => Isa refinement suites,
random instruction-sequence traces, S->I replay of TLC's boundary-to-boundary runs."""
import json
import os
import random
import re

import vlib

MC = os.path.join(vlib.SPEC, "mc", "MC_Isa.tla")
_MM = re.compile(r'<<(\d+), (\d+), (\d+), (\d+), (\d+), (\d+), \\"(\w+)\\", \\"(\w+)\\", \\"(\w+)\\", (\{.*?\}),')


def run_suite(suite, timeout=7200, workers=None, xmx="16g"):
    cfg = os.path.join(vlib.SPEC, "mc", "MC_Isa_%s.cfg" % suite)
    r = vlib.tlc(MC, cfg, timeout=timeout, extra=["-continue", "-maxSetSize", "3000000"], name="isa-" + suite, workers=workers, xmx=xmx)
    sem, cost = [], []
    for line in r.out.splitlines():
        if '"MISMATCH"' not in line:
            continue
        m = _MM.search(line)
        if not m:
            sem.append({"raw": line[:400]})
            continue
        pc, b0, b1, b2, k, cyc, st, est, tag, diff = m.groups()
        rec = {"suite": suite, "pc": int(pc), "bytes": [int(b0), int(b1), int(b2)], "edges": int(k), "isa_cost": int(cyc),
               "micro_state": st, "isa_state": est, "tag": tag, "diff": diff.replace('\\"', ''), "raw": line[:700]}
        # C15: both reach a boundary Running but the number of edges is not the documented cost (whatever else differs)
        if st == est == "Running" and tag == "done" and rec["edges"] != rec["isa_cost"]:
            cost.append(rec)
        # ... or the next boundary is never reached although the instruction has a documented (finite) cost
        if tag == "stuck" and est == "Running":
            cost.append(rec)
        # C01: anything but a pure cost difference
        if not (st == est == "Running" and tag == "done" and rec["diff"] == "{}"):
            sem.append(rec)
    return r, sem, cost


def seed_state(sd):
    """the boundary state MC_Isa!Mk builds from a seed tuple <<pc, bytes, r0, r1, r2, fr, sp, pend, ss, ps>> as a restore op"""
    pc, bts, r0, r1, r2, fr, sp, pend, ss, ps = sd
    ram = [(i * 37 + 11) % 256 for i in range(240)]
    for j, b in enumerate(bts):
        if pc + j < 240:
            ram[pc + j] = b
    inr = [10, 13, 16, 19]
    misr = 17 if pend else 0
    def rd(a):
        if a <= 239:
            return ram[a]
        if a == 249:
            return misr
        if a >= 252:
            return inr[a - 252]
        if a == 242:
            return 255
        return 0
    return {"op": "restore", "state": {"maddr": 6, "ir": 2, "regs": [r0, r1, r2, pc, fr, sp, 90, 165], "prw": 3, "pfw": False, "pei": pend, "pli": False,
                                       "wait": pc <= 239, "st": "Running", "aout": (pc + 1) % 256, "ac": False, "az": False, "an": False, "lbr": rd(pc),
                                       "ss": ss, "ps": ps, "ram": ram, "inr": inr, "micr": 1, "misr": misr}}


def replay_seeds(v, out, name, every=1):
    """S->I: run the boundary-to-boundary behaviours TLC explored on the real machine (state rebuilt through the hooks)"""
    cases = []
    for n, c in enumerate(vlib.tlc_replay_lines(out)):
        if n % every:
            continue
        cases.append({"pre": [seed_state(c["sd"])], "h": [{"op": "edge", "n": c["k"]}], "s": c["s"], "sd": c["sd"]})
    if not cases:
        return 0
    res = vlib.replay_cases(cases, name)
    if res["mismatches"]:
        f = res["first"][0]
        v.violation("isa:replay", "the real machine, put into the boundary state of seed %s and clocked %s edges, differs from Micro.tla: %s (%d of %d replayed behaviours differ)"
                    % (f["case"]["sd"], f["case"]["h"][0]["n"], f["diff"][:4], res["mismatches"], res["cases"]), {"seed": f["case"]["sd"], "diff": f["diff"]})
    return res["cases"]



DEFINED1 = [b for b in range(2, 240) if not (0x4C <= b <= 0x4F) and not (0xE0 <= b <= 0xEF)]
DEFINED2 = list(range(0x10, 0x48)) + list(range(0x50, 0x70))


def random_image(rng, biased=True, n=200):
    """opcode-biased image: LDSP 0xEF first, then defined instructions with plausible operands; or uniform bytes"""
    if not biased:
        return [0xFB, 0xEF, 0x40] + [rng.randrange(256) for _ in range(n)]
    img = [0xFB, 0xEF, 0x40]
    if rng.random() < 0.5:
        img += [0xFB, 0x01, 0x1F, 0xF9, 0x08]           # MOV (0xF9),1 ; EI : arm the key interrupt
    while len(img) < n:
        r = rng.random()
        if r < 0.55:
            op = rng.choice(DEFINED1)
            img.append(op)
            if 0x20 <= op <= 0x2B:                     # JR / CALL operand
                img.append(rng.choice([0, 1, 2, 3, 0xFE, 0xFD, rng.randrange(256)]) if op < 0x28 else rng.randrange(0, n))
        elif r < 0.9:
            first = rng.randrange(0xF0, 0x100)
            img.append(first)
            if first in (0xFB, 0xFF):
                img.append(rng.choice([0, 1, 0x7F, 0x80, 0xEF, 0xF0, 0xFC, 0xFE, 0xFF, rng.randrange(256)]))
            op2 = rng.choice(DEFINED2)
            img.append(op2)
            if op2 & 0x0F in (0x0B, 0x0F):             # destination (PC+) / ((PC+)): address byte follows
                img.append(rng.choice([0x80, 0xEE, 0xEF, 0xF0, 0xFE, 0xFF, rng.randrange(256)]))
        elif r < 0.97:
            img.append(rng.randrange(256))
        else:
            img.append(0x01)
    return img[:240]


def isa_trace_ops(rng, nimg, ninsn):
    ops = [{"op": "new", "cfg": {"inr": [rng.randrange(256) for _ in range(4)]}}]
    for i in range(nimg):
        img = random_image(rng, biased=(rng.random() < 0.8), n=rng.choice([60, 120, 230]))
        ops.append({"op": "load", "image": img, "ss": rng.choice([0, 16, 32, 48, 64]), "ps": rng.choice([255, 255, len(img), -1])})
        for k in range(4):
            ops.append({"op": "set_input", "k": k, "v": rng.randrange(256)})
        ops.append({"op": "isa_run", "n": ninsn, "key_every": rng.choice([0, 0, 3, 7])})
        if rng.random() < 0.5:
            ops.append({"op": "continue"})
            ops.append({"op": "isa_run", "n": ninsn // 2, "key_every": 0})
    ops += io_exec_ops(rng, 12)
    return ops


VOLTS = [0, 1, 999, 2500, 4999, 5000, 5001, 70000, -1, -1000000, -2000000, 2000000]      # incl. NaN / -inf / +inf codes


def full_cfg(rng):
    """a complete MachineConfig (as the CLI / the TUI build it): inputs, board inputs incl. hostile voltages, jumpers, UIO levels"""
    return {"inr": [rng.choice([0, 1, 255, rng.randrange(256)]) for _ in range(4)], "di1": rng.choice([0, 255, rng.randrange(256)]),
            "temp": rng.choice(VOLTS + [rng.randrange(0, 5001)]), "ai1": rng.choice(VOLTS + [rng.randrange(0, 5001)]),
            "ai2": rng.choice(VOLTS + [rng.randrange(0, 5001)]), "j1": rng.random() < 0.5, "j2": rng.random() < 0.5,
            "uio1": rng.random() < 0.5, "uio2": rng.random() < 0.5, "uio3": rng.random() < 0.5}


def new_checked(rng, image=None):
    op = {"op": "new_checked", "cfg": full_cfg(rng)}
    if image is not None:
        op.update({"image": image, "ss": rng.choice([-1, 0, 16, 32, 48, 64]), "ps": rng.choice([-2, -1, 255, len(image), 7])})
    return op


def io_exec_ops(rng, n):
    """instructions FETCHED from I/O addresses: a program in the input registers FC..FF (reached by a jump, then wrapping to address 0) and an
    instruction whose opcode lies at 0xEE / 0xEF with its operand bytes at 0xF0.. (board registers) - no wait cycle for any of these reads"""
    ops = []
    multi = [[251, None, 16], [251, None, 17], [255, None, 18], [240 + rng.randrange(16), rng.choice(DEFINED2), 2], [247, None, rng.choice(DEFINED2)],
             [251, None, 64], [32, 2, 68], [255, 252, 16], [243, None, 0x1B], [68, 69, 70]]
    for _ in range(n):
        ops.append({"op": "new", "cfg": {"inr": [0, 0, 0, 0]}})
        pat = [b if b is not None else rng.choice([0, 7, 0x80, 0xEF, 0xF0, 0xFC, 0xFF, rng.randrange(256)]) for b in rng.choice(multi)]
        inr = (pat + [rng.choice([68, 2, 70, 16, 96])])[:4]
        where = rng.choice([0xFC, 0xFC, 0xFD, 0xEE, 0xEF, 0xED])
        img = [251, where, 19] + [2] * 3 + [rng.randrange(256) for _ in range(6)]      # LD PC, where
        if where < 0xF0:
            img = (img + [2] * 240)[:240]
            tail = [b if b is not None else rng.randrange(256) for b in rng.choice(multi)]
            for i, b in enumerate(tail):
                if where + i < 240:
                    img[where + i] = b
        ops.append({"op": "load", "image": img, "ss": rng.choice([0, 16]), "ps": 255})
        for k in range(4):
            ops.append({"op": "set_input", "k": k, "v": inr[k]})
        ops.append({"op": "set_di1", "v": rng.choice([16, 17, 64, 2, 68, rng.randrange(256)])})
        ops.append({"op": "isa_run", "n": 14, "key_every": rng.choice([0, 0, 5])})
    return ops


def edge_trace_ops(rng, nimg, nedges):
    ops = [{"op": "new", "cfg": {"inr": [rng.randrange(256) for _ in range(4)]}}]
    for i in range(nimg):
        img = random_image(rng, biased=(rng.random() < 0.8), n=rng.choice([60, 120, 230]))
        ops.append({"op": "load", "image": img, "ss": rng.choice([0, 16, 32, 48, 64]), "ps": rng.choice([255, 255, len(img)])})
        left = nedges
        while left > 0:
            n = rng.randrange(1, 60)
            ops.append({"op": "edge", "n": n})
            left -= n
            r = rng.random()
            if r < 0.3:
                ops.append({"op": "key_int"})
            elif r < 0.4:
                ops.append({"op": "continue"})
            elif r < 0.5:
                ops.append({"op": "set_input", "k": rng.randrange(4), "v": rng.randrange(256)})
    ops.append({"op": "checkpoint"})
    return ops


def report_trace_results(v, traces, results, prefix, what):
    nev = 0
    for tp, tr in zip(traces, results):
        nev += tr["states"]
        if tr["violated"]:
            v.violation("%s:inv" % prefix, "invariant %s violated on a validated %s trace" % (tr["violated"], what), {"trace": tp, "tlc": tr["out_tail"]})
        elif not tr["accepted"]:
            ev = vlib.event_at(tp, tr["reached"]) if tr["reached"] else {}
            cur = (ev.get("event") or {})
            pre = (ev.get("previous") or {}).get("s", {})
            pc = (pre.get("regs") or [0, 0, 0, 0])[3]
            v.violation("%s:%s" % (prefix, tr["op"]),
                        "%s trace rejected at event %s (%s); state before: PC=%s IR=%s maddr=%s" % (what, tr["reached"], tr["op"], pc, pre.get("ir"), pre.get("maddr")),
                        {"trace": tp, "rejected": ev, "tlc": tr["out_tail"][-800:]})
    return nev


def board_irq_ops(rng):
    """a short sequence that configures a board interrupt source and makes it fire: ICR write (IE, level or edge mode, polarity, source),
    optional MICR bus enables, then transitions of exactly that source"""
    src = rng.randrange(1, 7)
    falling = rng.random() < 0.5
    icr = 192 + (32 if rng.random() < 0.8 else 0) + (16 if rng.random() < 0.5 else 0) + (8 if falling else 0) + src
    ops = []
    if rng.random() < 0.7:
        ops.append({"op": "bus_write", "a": 0xF9, "v": rng.choice([0x10, 0x20, 0x30, 0x3F, 0x11])})
    if src <= 3 and rng.random() < 0.8:
        ops.append({"op": "bus_write", "a": 0xF2, "v": 128})          # all UIO pins inputs
    ops.append({"op": "bus_write", "a": 0xF2, "v": icr})
    lo, hi = (True, False) if falling else (False, True)
    def setlvl(val):
        if src <= 3:
            return [{"op": "set_uio", "k": src, "v": val}]
        if src == 6:
            return [{"op": "set_j1", "v": val}]
        if src == 4:
            return [{"op": "bus_write", "a": 0xF0, "v": 100}, {"op": "set_ai1", "x": 2000 if val else 500}]
        return [{"op": "bus_write", "a": 0xF1, "v": 100}, {"op": "set_ai2", "x": 2000 if val else 500}]
    ops += setlvl(lo) + setlvl(hi)
    ops.append({"op": "edge", "n": rng.randrange(1, 6)})
    return ops
